package main

import (
	"fmt"
	"go/ast"
	"go/token"
	"go/types"
	"path/filepath"
	"strings"

	"golang.org/x/tools/go/ssa"
)

func init() {
	register(&Rule{ID: "R52", Name: "CLAUSE-ALL", Floor: 3,
		Text: "the loops over the sub-clauses in AndClause.filter and OrClause.filter, and the loop over the leaf filters of one OR group in QFrame.filter, evaluate every element: the only exits from the loop are exhaustion of the range, an exit taken because the accumulated frame carries an error, or (QFrame.filter) a return of an errored frame; an early exit on any other condition (e.g. `all rows already selected`) skips clauses whose evaluation would have reported an error",
		Run:  runR52})
	register(&Rule{ID: "R53", Name: "CALLBACK-ARG-FRESH", Floor: 10,
		Text: "a pointer handed to a per-row user callback inside a loop is never the address of a variable that lives across iterations: built-ins such as function.StrS and function.ConcatS return their argument, so a reused cell makes every row alias the last one",
		Run:  runR53})
	register(&Rule{ID: "R54", Name: "TABLE-PTR-LOCAL", Floor: 1,
		Text: "the address of a hash-table entry (an element of a []tableEntry) is only held in local variables of the function that computed it, or of the unexported caller it is returned to (which must not grow the table afterwards): it is never stored into a struct field, a global or a heap cell, because growing the table replaces the entries slice and such a pointer would keep writing into the discarded table",
		Run:  runR54})
	register(&Rule{ID: "R55", Name: "NULL-OPTION", Floor: 2,
		Text: "every Column.Comparable built for Distinct/GroupBy receives the caller's groupby.Null option as its equalNull argument (traced through the helper's parameter to a load of Config.GroupByNull at every call site); only Sort passes a constant",
		Run:  runR55})
}

// ---------- R52 ----------

func runR52(c *Ctx) {
	p := c.P
	for _, name := range []string{"AndClause.filter", "OrClause.filter"} {
		fn := p.Func("", name)
		if fn == nil {
			c.undecided("qframe."+name, "-", "not found")
			continue
		}
		found := false
		// the loop over the sub-clauses: in the method itself, or in a helper of the package that is handed the list
		type loopSite struct {
			fn *ssa.Function
			li loopInfo
		}
		var sites []loopSite
		for _, li := range loopsOf(fn) {
			if li.base == nil {
				continue
			}
			if fld, _ := fieldOf(li.base); fld != nil && fld.Name() == "subClauses" {
				sites = append(sites, loopSite{fn, li})
			}
		}
		method := fn
		eachInstr(method, func(in ssa.Instruction) {
			call, ok := in.(*ssa.Call)
			if !ok {
				return
			}
			callee := call.Call.StaticCallee()
			if callee == nil || callee.Pkg != method.Pkg || callee.Blocks == nil {
				return
			}
			for i, a := range call.Call.Args {
				if fld, _ := fieldOf(a); fld == nil || fld.Name() != "subClauses" || i >= len(callee.Params) {
					continue
				}
				for _, li := range loopsOf(callee) {
					if li.base != nil && rootValue(li.base) == ssa.Value(callee.Params[i]) {
						sites = append(sites, loopSite{callee, li})
					}
				}
			}
		})
		for _, site := range sites {
			fn, li := site.fn, site.li
			found = true
			key := fname(method) + "|loop over sub-clauses"
			bad := ""
			for _, b := range fn.Blocks {
				if !inLoop(li, b) {
					continue
				}
				for _, s := range b.Succs {
					if inLoop(li, s) || b == li.header {
						continue
					}
					// an exit from inside the loop body: allowed only under an Err test
					if !guardedByErrField(s) && !guardedByErrField(b) {
						bad = p.pos(b.Instrs[len(b.Instrs)-1].Pos())
						if bad == "-" {
							bad = p.pos(s.Instrs[0].Pos())
						}
					}
				}
				// a return inside the loop body
				if ret, ok := b.Instrs[len(b.Instrs)-1].(*ssa.Return); ok && !guardedByErrField(b) {
					bad = p.instrPos(ret)
				}
			}
			if bad != "" {
				c.bad(key, p.pos(fn.Pos()), fmt.Sprintf("the loop is left early at %s on a condition other than an error: the remaining sub-clauses are never evaluated, so their errors (unknown column, bad comparator) are lost", bad))
			} else if skip := r52SkippedElement(p, fn, li); skip != "" {
				c.bad(key, p.pos(fn.Pos()), "an iteration can reach the next one without evaluating its sub-clause ("+skip+"): a clause that is skipped - because it `looks like` one seen before, or for any other reason - contributes neither its rows nor its errors")
			} else {
				c.ok(key, p.pos(fn.Pos()), "every sub-clause is evaluated (only exit: range exhausted / error; every iteration hands its clause to filter() or to the batch of leaf filters)")
			}
		}
		if !found {
			c.undecided(fname(method)+"|loop over sub-clauses", p.pos(method.Pos()), "no range over subClauses found")
		}
	}
	// QFrame.filter: the leaf filters of one OR group share a boolean index; every one of them is evaluated
	r52FilterLoop(c)
}

// r52SkippedElement: "" when every path through one iteration of the loop li (a range over sub-clauses)
// consumes the range element - invokes its filter method, or appends it (converted) to a []filter.Filter;
// otherwise a description of the escaping path.
func r52SkippedElement(p *Prog, fn *ssa.Function, li loopInfo) string {
	// the element: a load of &base[key]
	derived := map[ssa.Value]bool{}
	var work []ssa.Value
	eachInstr(fn, func(in ssa.Instruction) {
		ia, ok := in.(*ssa.IndexAddr)
		if !ok || accessPath(ia.X) != accessPath(li.base) || !inLoop(li, ia.Block()) {
			return
		}
		for _, r := range *ia.Referrers() {
			if l, ok := r.(*ssa.UnOp); ok && l.Op == token.MUL {
				work = append(work, l)
			}
		}
	})
	if len(work) == 0 {
		return "the range element is never read"
	}
	for len(work) > 0 {
		v := work[len(work)-1]
		work = work[:len(work)-1]
		if derived[v] {
			continue
		}
		derived[v] = true
		refs := v.Referrers()
		if refs == nil {
			continue
		}
		for _, r := range *refs {
			switch t := r.(type) {
			case *ssa.TypeAssert:
				work = append(work, t)
			case *ssa.Extract:
				if t.Index == 0 {
					work = append(work, t)
				}
			case *ssa.ChangeType:
				work = append(work, t)
			case *ssa.Convert:
				work = append(work, t)
			case *ssa.MakeInterface:
				work = append(work, t)
			case *ssa.ChangeInterface:
				work = append(work, t)
			case *ssa.Phi:
				work = append(work, t)
			case *ssa.Slice:
				work = append(work, t)
			case *ssa.Store:
				if t.Val == v {
					// stored into a fresh array / local cell: the container carries the element
					root := t.Addr
					if ia, ok := root.(*ssa.IndexAddr); ok {
						root = ia.X
					}
					if a, ok := root.(*ssa.Alloc); ok {
						work = append(work, a)
						for _, ar := range *a.Referrers() {
							if l, ok := ar.(*ssa.UnOp); ok && l.Op == token.MUL {
								work = append(work, l)
							}
						}
					}
				}
			}
		}
	}
	consumer := map[*ssa.BasicBlock]bool{}
	eachInstr(fn, func(in ssa.Instruction) {
		call, ok := in.(ssa.CallInstruction)
		if !ok {
			return
		}
		cc := call.Common()
		if cc.IsInvoke() && derived[cc.Value] && cc.Method.Name() == "filter" {
			consumer[in.Block()] = true
		}
		if builtinName(call) == "append" {
			if sl, ok := cc.Args[0].Type().Underlying().(*types.Slice); ok && isNamed(sl.Elem(), rel("filter"), "Filter") {
				for _, a := range cc.Args[1:] {
					if derived[a] {
						consumer[in.Block()] = true
					}
				}
			}
		}
		if f := staticCallee(call); f != nil && f.Signature.Recv() != nil && f.Name() == "filter" && len(cc.Args) > 0 && derived[cc.Args[0]] {
			consumer[in.Block()] = true
		}
	})
	if len(consumer) == 0 {
		return "nothing in the loop hands the clause to filter() or to the batch of leaf filters"
	}
	// a path from the loop body back to the header that avoids every consumer block
	seen := map[*ssa.BasicBlock]bool{}
	var dfs func(b *ssa.BasicBlock) string
	dfs = func(b *ssa.BasicBlock) string {
		if seen[b] || consumer[b] || !inLoop(li, b) {
			return ""
		}
		seen[b] = true
		for _, s := range b.Succs {
			if s == li.header {
				pos := "-"
				if len(b.Instrs) > 0 {
					pos = p.instrPos(b.Instrs[len(b.Instrs)-1])
				}
				return "back to the loop header from " + pos
			}
			if r := dfs(s); r != "" {
				return r
			}
		}
		return ""
	}
	for _, s := range li.header.Succs {
		if inLoop(li, s) {
			if r := dfs(s); r != "" {
				return r
			}
		}
	}
	return ""
}

// exitReportsError: the block ends in a return that hands back an errored frame (the result of the
// error-setting helper) or a non-nil error.
func exitReportsError(p *Prog, b *ssa.BasicBlock) bool {
	if len(b.Instrs) == 0 {
		return false
	}
	ret, ok := b.Instrs[len(b.Instrs)-1].(*ssa.Return)
	if !ok {
		return false
	}
	for _, r := range ret.Results {
		r = unspillResult(ret, r)
		if call, ok := r.(*ssa.Call); ok {
			if o := calleeObj(call); o != nil && p.isErrSetter(o) {
				return true
			}
		}
		if isErrorType(r.Type()) {
			if cst, ok := r.(*ssa.Const); !ok || !cst.IsNil() {
				return true
			}
		}
	}
	return false
}

func r52FilterLoop(c *Ctx) {
	p := c.P
	fn := p.anchorFrameFilter()
	if fn == nil {
		c.undecided("qframe.QFrame.filter", "-", "not found")
		return
	}
	found := false
	for _, li := range loopsOf(fn) {
		if li.base == nil {
			continue
		}
		prm, ok := li.base.(*ssa.Parameter)
		if !ok {
			continue
		}
		sl, ok := prm.Type().Underlying().(*types.Slice)
		if !ok || !isNamed(sl.Elem(), rel("filter"), "Filter") {
			continue
		}
		found = true
		key := fname(fn) + "|loop over leaf filters"
		bad := ""
		for _, b := range fn.Blocks {
			if !inLoop(li, b) || b == li.header {
				continue
			}
			// inner loops (the negation loop over the boolean index) have their own exits back into this loop
			for _, s := range b.Succs {
				if inLoop(li, s) {
					continue
				}
				if guardedByErrField(s) || guardedByErrField(b) || exitReportsError(p, s) {
					continue
				}
				bad = p.pos(b.Instrs[len(b.Instrs)-1].Pos())
				if bad == "-" && len(s.Instrs) > 0 {
					bad = p.pos(s.Instrs[0].Pos())
				}
			}
			if ret, ok := b.Instrs[len(b.Instrs)-1].(*ssa.Return); ok && !guardedByErrField(b) && !exitReportsError(p, b) {
				bad = p.instrPos(ret)
			}
		}
		if bad != "" {
			c.bad(key, p.pos(fn.Pos()), fmt.Sprintf("the loop over the filters of an OR group is left early at %s on a condition other than a failure: the remaining filters are never evaluated, so their errors (unknown column, undeclared enum constant, bad comparator) are lost", bad))
		} else {
			c.ok(key, p.pos(fn.Pos()), "every leaf filter is evaluated (only exits: range exhausted / error return)")
		}
	}
	if !found {
		c.undecided(fname(fn)+"|loop over leaf filters", p.pos(fn.Pos()), "no range over the []filter.Filter parameter found")
	}
}

// ---------- R53 ----------

func runR53(c *Ctx) {
	p := c.P
	scope := map[string]bool{rel(""): true}
	for _, cp := range columnPkgs {
		scope[rel(cp)] = true
	}
	for _, fn := range p.Funcs {
		if !scope[fn.Pkg.Pkg.Path()] {
			continue
		}
		var loops []loopInfo
		done := false
		eachInstr(fn, func(in ssa.Instruction) {
			call, ok := in.(*ssa.Call)
			if !ok || call.Call.IsInvoke() || call.Call.StaticCallee() != nil || builtinName(call) != "" {
				return
			}
			if isUser, _ := userFuncOrigin(call.Call.Value, 0); !isUser {
				return
			}
			if !done {
				loops, done = loopsOf(fn), true
			}
			var li *loopInfo
			for i := range loops {
				if inLoop(loops[i], call.Block()) {
					li = &loops[i]
				}
			}
			if li == nil {
				return
			}
			for _, a := range call.Call.Args {
				if _, isPtr := a.Type().Underlying().(*types.Pointer); !isPtr {
					continue
				}
				key := fname(fn) + "|pointer argument of callback"
				var stale *ssa.Alloc
				seen := map[ssa.Value]bool{}
				var walk func(v ssa.Value, d int)
				walk = func(v ssa.Value, d int) {
					if v == nil || seen[v] || d > 6 {
						return
					}
					seen[v] = true
					switch t := v.(type) {
					case *ssa.Alloc:
						if !inLoop(*li, t.Block()) {
							stale = t
						}
					case *ssa.Phi:
						for _, e := range t.Edges {
							walk(e, d+1)
						}
					case *ssa.FieldAddr:
						walk(t.X, d+1)
					}
				}
				walk(a, 0)
				if stale != nil {
					c.bad(key, p.instrPos(call), fmt.Sprintf("the callback receives the address of %s, a variable declared outside the per-row loop and overwritten every iteration: results that retain the pointer (StrS, ConcatS, identity-like user functions) all end up showing the last row", stale.Comment))
				} else {
					c.ok(key, p.instrPos(call), "fresh per row (result of a call / allocated in the iteration / a cell of the column)")
				}
			}
		})
	}
}

// ---------- R54 ----------

func runR54(c *Ctx) {
	p := c.P
	n := 0
	for _, fn := range p.FuncsIn("internal/grouper") {
		eachInstr(fn, func(in ssa.Instruction) {
			ia, ok := in.(*ssa.IndexAddr)
			if !ok || !isEntriesSlice(ia.X.Type()) {
				return
			}
			n++
			key := fname(fn) + "|address of table entry"
			bad := ""
			seen := map[ssa.Value]bool{}
			var walk func(v ssa.Value, d int)
			walk = func(v ssa.Value, d int) {
				if seen[v] || d > 8 {
					return
				}
				seen[v] = true
				for _, r := range *v.Referrers() {
					switch t := r.(type) {
					case *ssa.Phi:
						walk(t, d+1)
					case *ssa.Store:
						if t.Val != v {
							continue // writing through the pointer is what it is for
						}
						if al, ok := t.Addr.(*ssa.Alloc); ok && !al.Heap {
							// a local pointer variable: follow its loads
							for _, ar := range *al.Referrers() {
								if ld, ok := ar.(*ssa.UnOp); ok && ld.Op == token.MUL {
									walk(ld, d+1)
								}
							}
							continue
						}
						bad = p.instrPos(t)
					case *ssa.MakeInterface, *ssa.MapUpdate:
						bad = p.instrPos(r)
					case *ssa.Return:
						// handing the pointer back to the (unexported, same-package) caller is fine when every
						// caller in turn only uses it locally and does not grow the table while holding it
						f := t.Parent()
						if f.Object() != nil && f.Object().Exported() {
							bad = p.instrPos(r)
							continue
						}
						for _, caller := range p.FuncsIn("internal/grouper") {
							eachInstr(caller, func(i2 ssa.Instruction) {
								call, ok := i2.(*ssa.Call)
								if !ok || call.Call.StaticCallee() != f {
									return
								}
								walk(call, d+1)
								// no call of a function that replaces the entries slice after this point in the caller
								for _, blk := range reachableAvoiding(call.Block(), nil) {
									for _, i3 := range blk.Instrs {
										if c3, ok := i3.(*ssa.Call); ok && c3 != call {
											if callee := c3.Call.StaticCallee(); callee != nil && callee.Pkg == f.Pkg && writesEntriesField(callee) && (blk != call.Block() || instrAfter(call, c3)) {
												bad = p.instrPos(c3)
											}
										}
									}
								}
							})
						}
					}
				}
			}
			walk(ia, 0)
			if bad != "" {
				c.bad(key, p.instrPos(ia), fmt.Sprintf("a pointer to a table entry is kept beyond this function (stored/returned at %s): after the table grows it points into the discarded entries slice, and rows added through it vanish from their group", bad))
			} else {
				c.ok(key, p.instrPos(ia), "used only locally")
			}
		})
	}
	if n == 0 {
		c.undecided("internal/grouper|entries", "-", "no access to a table entries slice found")
	}
}

// ---------- R55 ----------

func runR55(c *Ctx) {
	p := c.P
	res := p.resolver()
	isNullOption := func(v ssa.Value) bool {
		fld, x := fieldOf(v)
		if fld == nil || fld.Name() != "GroupByNull" {
			return false
		}
		_ = x
		return true
	}
	for _, fn := range p.FuncsIn("") {
		eachInstr(fn, func(in ssa.Instruction) {
			call, ok := in.(*ssa.Call)
			if !ok || !call.Call.IsInvoke() || call.Call.Method.Name() != "Comparable" || len(call.Call.Args) != 3 {
				return
			}
			key := fname(fn) + "|equalNull argument"
			arg := call.Call.Args[1]
			switch t := arg.(type) {
			case *ssa.Const:
				if !r55TakesGroupOptions(p, fn, map[*ssa.Function]bool{}, 0) {
					c.ok(key, p.instrPos(call), "not on a path from an operation that takes groupby options (Sort: null-vs-null ties are irrelevant for ordering)")
				} else {
					c.bad(key, p.instrPos(call), "a constant is passed as equalNull outside Sort: the groupby.Null option is ignored on this path")
				}
			case *ssa.Parameter:
				// every caller must pass the option
				idx := -1
				for i, prm := range fn.Params {
					if prm == t {
						idx = i
					}
				}
				okAll, n := true, 0
				for _, caller := range p.FuncsIn("") {
					eachInstr(caller, func(i2 ssa.Instruction) {
						ci, ok := i2.(*ssa.Call)
						if !ok {
							return
						}
						for _, callee := range res.callees(ci) {
							if callee != fn {
								continue
							}
							args := argsFor(ci, callee)
							if args == nil {
								continue
							}
							n++
							if !isNullOption(args[idx]) {
								okAll = false
								c.bad(fname(caller)+"|Null option passed on", p.instrPos(ci), "the helper that builds the comparables is not given config.GroupByNull: the groupby.Null option is ignored on this path")
							}
						}
					})
				}
				if okAll && n > 0 {
					c.ok(key, p.instrPos(call), fmt.Sprintf("parameter fed from config.GroupByNull at all %d call sites", n))
				} else if n == 0 {
					c.undecided(key, p.instrPos(call), "no caller found")
				}
			default:
				if isNullOption(arg) {
					c.ok(key, p.instrPos(call), "config.GroupByNull")
				} else {
					c.bad(key, p.instrPos(call), "equalNull does not come from the groupby.Null option")
				}
			}
		})
	}
}

// r55TakesGroupOptions: fn, or a function it is called from, receives groupby options (a parameter of a type of
// package config/groupby, or a call of its NewConfig): the Null option exists on this path.
func r55TakesGroupOptions(p *Prog, fn *ssa.Function, seen map[*ssa.Function]bool, d int) bool {
	if seen[fn] {
		return false
	}
	seen[fn] = true
	fromGroupby := func(t types.Type) bool {
		found := false
		var walk func(t types.Type, d int)
		walk = func(t types.Type, d int) {
			if d > 4 || found {
				return
			}
			switch u := t.(type) {
			case *types.Named:
				if o := u.Obj(); o.Pkg() != nil && o.Pkg().Path() == rel("config/groupby") {
					found = true
				}
			case *types.Slice:
				walk(u.Elem(), d+1)
			case *types.Pointer:
				walk(u.Elem(), d+1)
			}
		}
		walk(t, 0)
		return found
	}
	for _, prm := range fn.Params {
		if fromGroupby(prm.Type()) {
			return true
		}
	}
	takes := false
	eachInstr(fn, func(in ssa.Instruction) {
		if call, ok := in.(*ssa.Call); ok && isFuncNamed(calleeObj(call), rel("config/groupby"), "", "NewConfig") {
			takes = true
		}
	})
	if takes {
		return true
	}
	sites, asValue := p.staticCallSites(fn)
	if asValue || d > 5 {
		return true // callers unknown: assume the worst
	}
	for _, s := range sites {
		if r55TakesGroupOptions(p, s.Parent(), seen, d+1) {
			return true
		}
	}
	return false
}

func init() {
	register(&Rule{ID: "R56", Name: "READER-ERR-STICKY", Floor: 1,
		Text: "in the CSV scanner the sticky error of the reader is set to io.EOF only where it has just been tested to be nil: a real failure of the underlying reader is never overwritten by end-of-input",
		Run:  runR56})
	register(&Rule{ID: "R57", Name: "UPPER-CURSOR", Floor: 1,
		Text: "in the zero-alloc ToUpper the input position advances by the encoded width of the source rune (utf8.RuneLen of the ranged rune, or the width returned by decoding the input), never by the width of the upper-cased rune, whose encoding may be longer or shorter",
		Run:  runR57})
}

func runR56(c *Ctx) {
	p := c.P
	n := 0
	for _, fn := range p.FuncsIn("internal/fastcsv") {
		eachInstr(fn, func(in ssa.Instruction) {
			st, ok := in.(*ssa.Store)
			if !ok || !isErrorType(st.Val.Type()) {
				return
			}
			ld, ok := st.Val.(*ssa.UnOp)
			if !ok {
				return
			}
			g, ok := ld.X.(*ssa.Global)
			if !ok || g.Name() != "EOF" || g.Pkg.Pkg.Path() != "io" {
				return
			}
			fa, ok := st.Addr.(*ssa.FieldAddr)
			if !ok {
				return
			}
			n++
			key := fname(fn) + "|err = io.EOF"
			want := accessPath(fa)
			okG := false
			for _, gd := range dominatingGuards(st.Block()) {
				b, ok := gd.Cond.(*ssa.BinOp)
				if !ok {
					continue
				}
				if cst, isC := b.Y.(*ssa.Const); isC && cst.IsNil() && accessPath(b.X) == want {
					if b.Op == token.EQL && gd.Val || b.Op == token.NEQ && !gd.Val {
						// the test must still be valid at the store: no call that may set the field in between
						stale := false
						eachInstr(fn, func(i2 ssa.Instruction) {
							ci, ok := i2.(ssa.CallInstruction)
							if !ok {
								return
							}
							callee := ci.Common().StaticCallee()
							if callee == nil || !writesField(p, callee, fa, map[*ssa.Function]bool{}) {
								return
							}
							if instrReaches(gd.If, i2) && instrReaches(i2, st) {
								stale = true
							}
						})
						if !stale {
							okG = true
						}
					}
				}
			}
			if okG {
				c.ok(key, p.instrPos(st), "only when no error is recorded yet")
			} else {
				c.bad(key, p.instrPos(st), "the reader's recorded error is overwritten with io.EOF without having been tested nil: a failure of the underlying reader is reported as a clean end of input (partial data, no error)")
			}
		})
	}
	if n == 0 {
		c.okTrivial("internal/fastcsv|err = io.EOF", "-", "the scanner never stores io.EOF itself")
	}
}

func runR57(c *Ctx) {
	p := c.P
	fn := p.anchorUpper()
	if fn == nil {
		c.undecided("internal/strings.ToUpper", "-", "not found")
		return
	}
	n := 0
	eachInstr(fn, func(in ssa.Instruction) {
		call, ok := in.(*ssa.Call)
		if !ok {
			return
		}
		o := calleeObj(call)
		if !isFuncNamed(o, "unicode/utf8", "", "RuneLen") {
			return
		}
		// is the result added to an int that indexes / reslices the input string?
		usedForInput := false
		var walk func(v ssa.Value, d int)
		seen := map[ssa.Value]bool{}
		walk = func(v ssa.Value, d int) {
			if seen[v] || d > 6 {
				return
			}
			seen[v] = true
			for _, r := range *v.Referrers() {
				switch t := r.(type) {
				case *ssa.BinOp:
					walk(t, d+1)
				case *ssa.Phi:
					walk(t, d+1)
				case *ssa.Slice:
					if b, ok := t.X.Type().Underlying().(*types.Basic); ok && b.Info()&types.IsString != 0 {
						usedForInput = true
					}
				}
			}
		}
		walk(call, 0)
		if !usedForInput {
			return
		}
		n++
		key := fname(fn) + "|input advance"
		// the argument must be the source rune (from ranging / decoding the input), not unicode.ToUpper's result
		fromUpper := false
		if ac, ok := call.Call.Args[0].(*ssa.Call); ok && isFuncNamed(calleeObj(ac), "unicode", "", "ToUpper") {
			fromUpper = true
		}
		if fromUpper {
			c.bad(key, p.instrPos(call), "the input position advances by the width of the upper-cased rune: for code points whose upper-case form has a different UTF-8 length the rest of the cell is cut at the wrong byte")
		} else {
			c.ok(key, p.instrPos(call), "advances by the width of the source rune")
		}
	})
	// an advance computed from EncodeRune's result (bytes written) applied to the input is the same mistake
	eachInstr(fn, func(in ssa.Instruction) {
		call, ok := in.(*ssa.Call)
		if !ok || !isFuncNamed(calleeObj(call), "unicode/utf8", "", "EncodeRune") {
			return
		}
		seen := map[ssa.Value]bool{}
		bad := false
		var walk func(v ssa.Value, d int)
		walk = func(v ssa.Value, d int) {
			if seen[v] || d > 6 {
				return
			}
			seen[v] = true
			for _, r := range *v.Referrers() {
				switch t := r.(type) {
				case *ssa.BinOp:
					walk(t, d+1)
				case *ssa.Phi:
					walk(t, d+1)
				case *ssa.Slice:
					if b, ok := t.X.Type().Underlying().(*types.Basic); ok && b.Info()&types.IsString != 0 && (t.Low == v || t.High == v) {
						bad = true
					}
				}
			}
		}
		walk(call, 0)
		if bad {
			n++
			c.bad(fname(fn)+"|input advance", p.instrPos(call), "the number of bytes written for the upper-cased rune is used to advance in the input string")
		}
	})
	if n == 0 {
		c.undecided(fname(fn)+"|input advance", p.pos(fn.Pos()), "cannot find how the input position advances")
	}
}

// writesField: fn (transitively through static module calls) stores to the same struct field as fa.
func writesField(p *Prog, fn *ssa.Function, fa *ssa.FieldAddr, seen map[*ssa.Function]bool) bool {
	if fn == nil || seen[fn] || fn.Blocks == nil || fn.Pkg == nil || !inModule(fn.Pkg.Pkg) {
		return false
	}
	seen[fn] = true
	st0, ok := deref(fa.X.Type()).Underlying().(*types.Struct)
	if !ok {
		return false
	}
	target := st0.Field(fa.Field)
	found := false
	eachInstr(fn, func(in ssa.Instruction) {
		if found {
			return
		}
		switch t := in.(type) {
		case *ssa.Store:
			if f2, ok := t.Addr.(*ssa.FieldAddr); ok {
				if s2, ok := deref(f2.X.Type()).Underlying().(*types.Struct); ok && s2.Field(f2.Field) == target {
					found = true
				}
			}
		case ssa.CallInstruction:
			if callee := t.Common().StaticCallee(); callee != nil && writesField(p, callee, fa, seen) {
				found = true
			}
		}
	})
	return found
}

func init() {
	register(&Rule{ID: "R58", Name: "JSON-FMT", Floor: 5,
		Text: "every return of a column's AppendByteStringAt is, for float cells ryu.AppendFloat64f(buf, cell) or the constant null under IsNaN(cell), for int cells strconv.AppendInt(buf, int64(cell), 10), for bool cells strconv.AppendBool(buf, cell), for string/enum cells strings.AppendQuotedString(buf, cell) or the constant null under the null test: no other formatter (integer fast paths lose -0 and large magnitudes) writes a number into JSON",
		Run:  runR58})
	register(&Rule{ID: "R59", Name: "WILDCARD-TRIM", Floor: 1,
		Text: "the helper that strips the % wildcards from a like pattern removes at most one % per end (TrimPrefix/TrimSuffix or slicing by one), never a cutset trim that would also eat literal % signs next to the wildcard",
		Run:  runR59})
}

func runR58(c *Ctx) {
	p := c.P
	f := p.idxFacts()
	res := p.resolver()
	for _, cp := range columnPkgs {
		fn := p.Func(cp, "Column.AppendByteStringAt")
		if fn == nil {
			c.undecided(cp+"|AppendByteStringAt", "-", "method not found")
			continue
		}
		hasNull := false
		defer func(cp string, fn *ssa.Function) {
			// the nullable cell types (float: NaN, string, enum) have a return that writes null under the null test:
			// without it NaN goes to the number formatter and a null string comes out as the empty string
			if cp == "internal/icolumn" || cp == "internal/bcolumn" {
				return
			}
			if hasNull {
				c.ok(fname(fn)+"|null case", p.pos(fn.Pos()), "null cells are written as null")
			} else {
				c.bad(fname(fn)+"|null case", p.pos(fn.Pos()), "no return writes the constant null under the cell's null test: a null (NaN) cell reaches the value formatter and is written as \"\" (NaN), which is not what the frame holds (and for NaN not JSON)")
			}
		}(cp, fn)
		eachInstr(fn, func(in ssa.Instruction) {
			ret, ok := in.(*ssa.Return)
			if !ok {
				return
			}
			key := fname(fn) + "|return"
			pos := p.instrPos(ret)
			call, isCall := ret.Results[0].(*ssa.Call)
			if !isCall {
				c.bad(key, pos, "the result is not produced by a formatter call")
				return
			}
			// append(buf, "null"...) under the null test
			if builtinName(call) == "append" {
				if s, ok := constString(call.Call.Args[1]); ok && s == "null" {
					okG := false
					for _, g := range dominatingGuards(ret.Block()) {
						if isNullPredicate(g.Cond) && g.Val {
							okG = true
						}
					}
					if okG {
						hasNull = true
						c.ok(key, pos, "null under the null test")
					} else {
						c.bad(key, pos, "the constant null is written without the cell having been tested null")
					}
					return
				}
				c.bad(key, pos, "bytes are appended directly instead of through the type's formatter")
				return
			}
			o := calleeObj(call)
			want, okW := "", false
			switch cp {
			case "internal/fcolumn":
				want = "ryu.AppendFloat64f"
				okW = isFuncNamed(o, rel("internal/ryu"), "", "AppendFloat64f")
			case "internal/icolumn":
				want = "strconv.AppendInt(_, _, 10)"
				if isFuncNamed(o, "strconv", "", "AppendInt") {
					if k, isK := constInt(call.Call.Args[2]); isK && k == 10 {
						okW = true
					}
				}
			case "internal/bcolumn":
				want = "strconv.AppendBool"
				okW = isFuncNamed(o, "strconv", "", "AppendBool")
			default:
				want = "strings.AppendQuotedString"
				okW = isFuncNamed(o, rel("internal/strings"), "", "AppendQuotedString")
			}
			cellOK := false
			for _, a := range call.Call.Args[1:] {
				if len(f.posReads(a, res)) >= 1 || derivesFromPosParam(f, a) {
					cellOK = true
				}
			}
			switch {
			case !okW:
				c.bad(key, pos, "the cell is written by something other than "+want+": the JSON text no longer denotes exactly the cell (e.g. -0 becomes 0 through an integer fast path)")
			case !cellOK:
				c.bad(key, pos, "the formatter is not applied to the cell at the given position")
			default:
				c.ok(key, pos, want+" on the cell")
			}
		})
	}
}

func runR59(c *Ctx) {
	p := c.P
	nm := p.anchorMatcherCtor()
	if nm == nil {
		c.undecided("internal/strings.NewMatcher", "-", "not found")
		return
	}
	helpers := map[*ssa.Function]bool{}
	eachInstr(nm, func(in ssa.Instruction) {
		call, ok := in.(*ssa.Call)
		if !ok {
			return
		}
		callee := call.Call.StaticCallee()
		if callee == nil || callee.Pkg == nil || callee.Pkg.Pkg.Path() != rel("internal/strings") {
			return
		}
		if callee.Signature.Params().Len() == 1 && callee.Signature.Results().Len() == 1 {
			helpers[callee] = true
		}
	})
	n := 0
	check := func(fn *ssa.Function) {
		eachInstr(fn, func(in ssa.Instruction) {
			call, ok := in.(*ssa.Call)
			if !ok {
				return
			}
			o := calleeObj(call)
			if o == nil || o.Pkg() == nil || o.Pkg().Path() != "strings" {
				return
			}
			hasPct := false
			for _, a := range call.Call.Args {
				if s, ok := constString(a); ok && len(s) > 0 && s[0] == '%' {
					hasPct = true
				}
			}
			if !hasPct {
				return
			}
			n++
			key := fname(fn) + "|strings." + o.Name()
			switch o.Name() {
			case "TrimPrefix", "TrimSuffix", "HasPrefix", "HasSuffix", "CutPrefix", "CutSuffix":
				c.ok(key, p.instrPos(call), "removes/tests exactly one leading or trailing %")
			default:
				c.bad(key, p.instrPos(call), "strings."+o.Name()+" with a % cutset removes every % in a run: a literal % next to the wildcard (like \"100%%\") is swallowed and the pattern matches too much")
			}
		})
	}
	check(nm)
	for h := range helpers {
		check(h)
	}
	if n == 0 {
		c.undecided("internal/strings|wildcard handling", p.pos(nm.Pos()), "no strings call with a % argument found in NewMatcher or its helpers")
	}
}

func init() {
	register(&Rule{ID: "R61", Name: "SHORT-READ", Floor: 2,
		Text: "no caller of io.Reader.Read decides anything by comparing the returned byte count with the size of the buffer it offered: a short read is legal at any time and does not mean the source is drained",
		Run:  runR61})
	register(&Rule{ID: "R62", Name: "EMPTY-LINES", Floor: 1,
		Text: "in ReadCSV, assuming the current row is an empty line and IgnoreEmptyLines is set, the code that appends the row's cells to the column buffers is unreachable whatever the column count is",
		Run:  runR62})
	register(&Rule{ID: "R2c", Name: "NO-SHARED-STATE", Floor: 3,
		Text: "the module contains no go statement, no use of sync / sync/atomic and no private math/rand generator: operations keep no hidden shared state (statement caches, memo tables, generators) that would make a result depend on earlier or concurrent calls",
		Run:  func(c *Ctx) { sharedStateCounts(c) }})
	purityRuleG("R1w", "PURITY-IO", 6, "(qframe.QFrame).ToCSV", "(qframe.QFrame).ToJSON", "(qframe.QFrame).ToSQL", "qframe.ReadCSV", "qframe.ReadJSON", "qframe.ReadSQL", "qframe.ReadSQLWithArgs")
}

func runR61(c *Ctx) {
	p := c.P
	for _, fn := range p.Funcs {
		eachInstr(fn, func(in ssa.Instruction) {
			call, ok := in.(*ssa.Call)
			if !ok {
				return
			}
			cc := call.Common()
			if !cc.IsInvoke() || cc.Method.Name() != "Read" || cc.Method.Pkg() == nil || cc.Method.Pkg().Path() != "io" {
				return
			}
			key := fname(fn) + "|count of io.Reader.Read"
			bufPath := accessPath(cc.Args[0])
			bad := ""
			for _, r := range *call.Referrers() {
				ex, ok := r.(*ssa.Extract)
				if !ok || ex.Index != 0 {
					continue
				}
				for _, u := range *ex.Referrers() {
					cmp, ok := u.(*ssa.BinOp)
					if !ok {
						continue
					}
					switch cmp.Op {
					case token.LSS, token.LEQ, token.GTR, token.GEQ, token.EQL, token.NEQ:
					default:
						continue
					}
					other := cmp.Y
					if cmp.Y == ssa.Value(ex) {
						other = cmp.X
					}
					if lc, ok := other.(*ssa.Call); ok && (builtinName(lc) == "len" || builtinName(lc) == "cap") {
						if accessPath(lc.Call.Args[0]) == bufPath || rootValue(lc.Call.Args[0]) == rootValue(cc.Args[0]) {
							bad = p.instrPos(cmp)
						}
					}
				}
			}
			if bad != "" {
				c.bad(key, p.instrPos(call), fmt.Sprintf("the byte count is compared with the buffer size at %s: a short read (legal for every io.Reader) is taken for end of input and the rest of the stream is dropped", bad))
			} else {
				c.ok(key, p.instrPos(call), "the count is never compared with the buffer size")
			}
		})
	}
}

func runR62(c *Ctx) {
	p := c.P
	fn := p.Func("internal/io", "ReadCSV")
	if fn == nil {
		c.undecided("internal/io.ReadCSV", "-", "not found")
		return
	}
	// blocks that append a cell to a column buffer
	var sinks []*ssa.BasicBlock
	eachInstr(fn, func(in ssa.Instruction) {
		st, ok := in.(*ssa.Store)
		if !ok {
			return
		}
		ia, ok := st.Addr.(*ssa.IndexAddr)
		if !ok || !isSliceOfSlices(ia.X.Type()) {
			return
		}
		if call, ok := st.Val.(*ssa.Call); ok && builtinName(call) == "append" {
			for _, li := range loopsOf(fn) {
				if inLoop(li, st.Block()) {
					sinks = append(sinks, st.Block())
					break
				}
			}
		}
	})
	// ... or hands the buffer table to a helper that does (an extracted appendRow)
	eachInstr(fn, func(in ssa.Instruction) {
		call, ok := in.(*ssa.Call)
		if !ok || call.Call.StaticCallee() == nil || call.Call.StaticCallee().Pkg != fn.Pkg {
			return
		}
		appends := false
		eachInstr(call.Call.StaticCallee(), func(i2 ssa.Instruction) {
			if st, ok := i2.(*ssa.Store); ok {
				if ia, ok := st.Addr.(*ssa.IndexAddr); ok && isSliceOfSlices(ia.X.Type()) {
					if c2, ok := st.Val.(*ssa.Call); ok && builtinName(c2) == "append" {
						appends = true
					}
				}
			}
		})
		if !appends {
			return
		}
		for _, a := range call.Call.Args {
			if isSliceOfSlices(a.Type()) {
				for _, li := range loopsOf(fn) {
					if inLoop(li, call.Block()) {
						sinks = append(sinks, call.Block())
						return
					}
				}
			}
		}
	})
	// the row loop: driven by r.Next()
	var start *ssa.BasicBlock
	eachInstr(fn, func(in ssa.Instruction) {
		if call, ok := in.(*ssa.Call); ok {
			if o := calleeObj(call); o != nil && o.Name() == "Fields" {
				start = call.Block()
			}
		}
	})
	key := fname(fn) + "|empty line with IgnoreEmptyLines"
	if start == nil || len(sinks) == 0 {
		c.undecided(key, p.pos(fn.Pos()), "cannot find the row loop / the cell append")
		return
	}
	decide := func(cond ssa.Value) (bool, bool) {
		cv, val := unNot(cond, true)
		if call, ok := cv.(*ssa.Call); ok {
			if h := call.Call.StaticCallee(); h != nil && h == p.anchorEmptyLine() {
				return val, true
			}
		}
		if fieldNameOfLoad(cv) == "IgnoreEmptyLines" {
			return val, true
		}
		return false, false
	}
	seen := map[*ssa.BasicBlock]bool{}
	reached := false
	var dfs func(b *ssa.BasicBlock)
	dfs = func(b *ssa.BasicBlock) {
		if seen[b] || reached {
			return
		}
		seen[b] = true
		for _, s := range sinks {
			if s == b {
				reached = true
				return
			}
		}
		follow := []bool{true, true}
		if iff, ok := b.Instrs[len(b.Instrs)-1].(*ssa.If); ok {
			if v, known := decide(iff.Cond); known {
				follow[0], follow[1] = v, !v
			}
		}
		for i, s := range b.Succs {
			if i < 2 && !follow[i] {
				continue
			}
			if s == start {
				continue // next row
			}
			dfs(s)
		}
	}
	dfs(start)
	if reached {
		c.bad(key, p.pos(start.Instrs[0].Pos()), "an empty line can reach the code that appends the row's cells although IgnoreEmptyLines is set (e.g. when the header has a single column, so the column count matches): the empty line becomes a cell")
	} else {
		c.ok(key, p.pos(start.Instrs[0].Pos()), "empty lines are skipped before any cell is appended, for every column count")
	}
}

// ---- R65: function values created by the library carry no mutable state ----

func init() {
	register(&Rule{ID: "R65", Name: "CLOSURE-STATE", Floor: 20,
		Text: "no anonymous function that outlives the operation creating it (E1: the function object is reachable from the result of a public root, or is stored into an argument or package-level state) writes through a variable it captured: a function value handed out by the library (aggregation.StrJoin(sep), option values, nilSafe wrappers, table entries) can be called from any number of goroutines and for any number of groups, so a captured scratch buffer or counter is shared mutable state. One obligation per anonymous function of the module",
		Run:  runR65})
}

// derivedFromFreeVar: the address/collection v is reached from a captured variable.
func derivedFromFreeVar(v ssa.Value, d int) *ssa.FreeVar {
	if d > 12 || v == nil {
		return nil
	}
	switch t := v.(type) {
	case *ssa.FreeVar:
		return t
	case *ssa.FieldAddr:
		return derivedFromFreeVar(t.X, d+1)
	case *ssa.IndexAddr:
		return derivedFromFreeVar(t.X, d+1)
	case *ssa.UnOp:
		if t.Op == token.MUL {
			return derivedFromFreeVar(t.X, d+1)
		}
	case *ssa.Slice:
		return derivedFromFreeVar(t.X, d+1)
	case *ssa.ChangeType:
		return derivedFromFreeVar(t.X, d+1)
	case *ssa.Phi:
		for _, e := range t.Edges {
			if fv := derivedFromFreeVar(e, d+1); fv != nil {
				return fv
			}
		}
	}
	return nil
}

// closureEscapes: some MakeClosure of fn is used other than as the callee of an immediate call / defer.
func closureEscapes(fn *ssa.Function) bool {
	parent := fn.Parent()
	if parent == nil {
		return false
	}
	esc := false
	var scan func(f *ssa.Function)
	scan = func(f *ssa.Function) {
		eachInstr(f, func(in ssa.Instruction) {
			mc, ok := in.(*ssa.MakeClosure)
			if !ok || mc.Fn != ssa.Value(fn) {
				return
			}
			for _, r := range *mc.Referrers() {
				switch u := r.(type) {
				case *ssa.Call:
					if u.Call.Value != ssa.Value(mc) {
						esc = true
					}
				case *ssa.Defer:
					if u.Call.Value != ssa.Value(mc) {
						esc = true
					}
				case *ssa.DebugRef:
				default:
					esc = true
				}
			}
		})
		for _, af := range f.AnonFuncs {
			scan(af)
		}
	}
	scan(parent)
	return esc
}

func runR65(c *Ctx) {
	p := c.P
	outlive := p.purityResult(nil).outlive
	for _, fn := range p.Funcs {
		if fn.Parent() == nil || fn.Blocks == nil {
			continue
		}
		key := fname(fn)
		if len(fn.FreeVars) == 0 {
			c.okTrivial(key+"|captures", p.pos(fn.Pos()), "captures nothing")
			continue
		}
		var writes []string
		eachInstr(fn, func(in ssa.Instruction) {
			switch t := in.(type) {
			case *ssa.Store:
				if fv := derivedFromFreeVar(t.Addr, 0); fv != nil {
					writes = append(writes, fmt.Sprintf("store through captured %s at %s", fv.Name(), p.instrPos(in)))
				}
			case *ssa.MapUpdate:
				if fv := derivedFromFreeVar(t.Map, 0); fv != nil {
					writes = append(writes, fmt.Sprintf("map update through captured %s at %s", fv.Name(), p.instrPos(in)))
				}
			case *ssa.Call:
				switch builtinName(t) {
				case "copy", "delete", "clear":
					if fv := derivedFromFreeVar(t.Call.Args[0], 0); fv != nil {
						writes = append(writes, fmt.Sprintf("%s through captured %s at %s", builtinName(t), fv.Name(), p.instrPos(in)))
					}
				}
			}
		})
		switch {
		case len(writes) == 0:
			c.ok(key+"|captures", p.pos(fn.Pos()), fmt.Sprintf("%d captured variable(s), none written", len(fn.FreeVars)))
		case !closureEscapes(fn):
			c.ok(key+"|captures", p.pos(fn.Pos()), "writes captured variables but is only invoked or deferred inside the call that created it")
		case outlive[fn] == "":
			c.ok(key+"|captures", p.pos(fn.Pos()), "writes captured variables and is passed on, but no public operation returns it or stores it in memory that outlives the operation (E1: not reachable from any root's result, arguments or package-level state)")
		default:
			writes = append(writes, "it survives "+outlive[fn])
			if len(writes) > 4 {
				writes = writes[len(writes)-4:]
			}
			c.bad(key+"|captures", p.pos(fn.Pos()), "a function value that outlives its creator keeps mutable state: "+strings.Join(writes, "; "))
		}
	}
}

// ---- R67: Not over a plain filter toggles Inverse ----

func init() {
	register(&Rule{ID: "R67", Name: "NOT-TOGGLE", Floor: 2,
		Text: "NotClause.filter is evaluated (E5) in the two worlds Inverse=false / Inverse=true of a plain Filter sub-clause, with no error pending: when the path hands a filter.Filter to QFrame.filter (the shortcut that avoids computing the complement), the Inverse field of that value is the negation of the sub-clause's Inverse - Not(Filter{Inverse: true}) is the plain filter again, not the inverse",
		Run:  runR67})
}

func runR67(c *Ctx) {
	p := c.P
	fn := p.Func("", "NotClause.filter")
	if fn == nil {
		c.undecided("NotClause.filter", "-", "method not found")
		return
	}
	isInverseAddr := func(v ssa.Value) bool {
		fa, ok := v.(*ssa.FieldAddr)
		if !ok {
			return false
		}
		st, ok := deref(fa.X.Type()).Underlying().(*types.Struct)
		return ok && st.Field(fa.Field).Name() == "Inverse"
	}
	for _, inv := range []bool{false, true} {
		key := fmt.Sprintf("(qframe.NotClause).filter|world sub-clause is a plain Filter with Inverse=%v", inv)
		pe := &pathExec{fn: fn}
		var atom func(x ssa.Value) (bool, bool)
		atom = func(x ssa.Value) (bool, bool) {
			switch t := x.(type) {
			case *ssa.Extract:
				if ta, ok := t.Tuple.(*ssa.TypeAssert); ok && ta.CommaOk && t.Index == 1 {
					return true, true
				}
			case *ssa.BinOp:
				if isErrorType(t.X.Type()) && (t.Op == token.NEQ || t.Op == token.EQL) {
					return t.Op == token.EQL, true // no error pending
				}
			case *ssa.UnOp:
				if t.Op == token.MUL && isInverseAddr(t.X) {
					return inv, true // not overwritten on this path (resolve would have replaced it)
				}
			case *ssa.Field:
				if st, ok := t.X.Type().Underlying().(*types.Struct); ok && st.Field(t.Field).Name() == "Inverse" {
					return inv, true
				}
			}
			return false, false
		}
		pe.oracle = func(pe *pathExec, cond ssa.Value) (bool, bool) { return pe.evalBool(cond, atom) }
		// a helper that builds the low level filter (invertedLeaf(leaf) filter.Filter) is evaluated in place
		pe.inline = func(callee *ssa.Function) bool {
			if callee.Pkg != fn.Pkg || callee.Signature.Recv() != nil || callee.Signature.Results().Len() != 1 {
				return false
			}
			n, ok := callee.Signature.Results().At(0).Type().(*types.Named)
			return ok && n.Obj().Name() == "Filter" && n.Obj().Pkg().Path() == rel("filter")
		}
		stored, storedKnown, nStores := false, false, 0
		handsOver := false
		var at ssa.Instruction
		pe.onInstr = func(pe *pathExec, in ssa.Instruction) {
			switch t := in.(type) {
			case *ssa.Store:
				if isInverseAddr(t.Addr) {
					nStores++
					stored, storedKnown = pe.evalBool(t.Val, atom)
					at = in
				}
			case *ssa.Call:
				callee := t.Call.StaticCallee()
				if callee == nil || callee.Pkg != fn.Pkg {
					return
				}
				sig := callee.Signature
				for i := 0; i < sig.Params().Len(); i++ {
					pt := sig.Params().At(i).Type()
					if sl, ok := pt.(*types.Slice); ok {
						pt = sl.Elem()
					}
					if n, ok := pt.(*types.Named); ok && n.Obj().Name() == "Filter" && n.Obj().Pkg().Path() == rel("filter") {
						handsOver = true
						if at == nil {
							at = in
						}
					}
				}
			}
		}
		end, why := pe.run()
		if _, ok := end.(*ssa.Return); !ok {
			c.undecided(key, p.pos(fn.Pos()), "cannot evaluate: "+why)
			continue
		}
		switch {
		case !handsOver:
			c.okTrivial(key, p.pos(fn.Pos()), "no shortcut: the complement is computed from the sub-clause's result")
		case nStores == 0:
			c.bad(key, p.instrPos(at), "the plain filter is handed to QFrame.filter with its Inverse unchanged: Not has no effect")
		case !storedKnown:
			c.undecided(key, p.instrPos(at), "the value stored into Inverse cannot be evaluated")
		case stored == !inv:
			c.ok(key, p.instrPos(at), fmt.Sprintf("Inverse becomes %v", stored))
		default:
			c.bad(key, p.instrPos(at), fmt.Sprintf("Inverse becomes %v, but the complement of a filter with Inverse=%v has Inverse=%v", stored, inv, !inv))
		}
	}
}

// ---- R70: QFrame.Equals compares every column pair, also for frames without rows ----

func init() {
	register(&Rule{ID: "R70", Name: "EQUALS-EVERY-COLUMN", Floor: 3,
		Text: "in QFrame.Equals the loop over the receiver's columns compares, on every iteration that reaches the next one, the two names and invokes Column.Equals on the pair (both dominate every back edge of the loop: no row-count or other condition skips them, so column types are compared for row-less frames too), and every `return true` is dominated by that loop's header (the loop cannot be bypassed)",
		Run:  runR70})
}

func runR70(c *Ctx) {
	p := c.P
	fn := p.Func("", "QFrame.Equals")
	if fn == nil {
		c.undecided("QFrame.Equals", "-", "method not found")
		return
	}
	fnm := fname(fn)
	var loop *loopInfo
	loops := loopsOf(fn)
	for i := range loops {
		li := &loops[i]
		base := li.base
		if base == nil {
			// classic counted loop: i < len(qf.columns)
			if iff, ok := li.header.Instrs[len(li.header.Instrs)-1].(*ssa.If); ok {
				if cmp, ok := iff.Cond.(*ssa.BinOp); ok && cmp.Op == token.LSS {
					if lc, ok := cmp.Y.(*ssa.Call); ok && builtinName(lc) == "len" {
						base = lc.Call.Args[0]
					}
				}
			}
		}
		if base == nil {
			continue
		}
		if sl, ok := base.Type().Underlying().(*types.Slice); ok {
			if n, ok := sl.Elem().(*types.Named); ok && n.Obj().Name() == "namedColumn" && fieldPathRootIsParam(base, fn.Params[0]) {
				loop = li
			}
		}
	}
	if loop == nil {
		c.undecided(fnm+"|column loop", p.pos(fn.Pos()), "no loop ranging over the receiver's columns found")
		return
	}
	var eqCall, nameCmp ssa.Instruction
	eachInstr(fn, func(in ssa.Instruction) {
		if !inLoop(*loop, in.Block()) {
			return
		}
		switch t := in.(type) {
		case ssa.CallInstruction:
			cc := t.Common()
			if cc.IsInvoke() && cc.Method.Name() == "Equals" && cc.Method.Pkg() != nil && cc.Method.Pkg().Path() == rel("internal/column") {
				eqCall = in
			}
		case *ssa.BinOp:
			if (t.Op == token.NEQ || t.Op == token.EQL) && fieldNameOfLoad(t.X) == "name" && fieldNameOfLoad(t.Y) == "name" {
				nameCmp = in
			}
		}
	})
	everyIter := func(what string, in ssa.Instruction) {
		key := fnm + "|" + what
		if in == nil {
			c.bad(key, p.pos(fn.Pos()), "the column loop contains no "+what)
			return
		}
		for _, pred := range loop.header.Preds {
			if !loop.header.Dominates(pred) {
				continue
			}
			if !(in.Block() == pred || in.Block().Dominates(pred)) {
				c.bad(key, p.instrPos(in), fmt.Sprintf("the %s is skipped on some iterations (an iteration reaches the next one without it, e.g. when the frames have no rows): two frames can then be Equal although this column pair was never compared", what))
				return
			}
		}
		c.ok(key, p.instrPos(in), "executed on every iteration of the column loop")
	}
	everyIter("Column.Equals call", eqCall)
	everyIter("name comparison", nameCmp)
	nTrue, bad := 0, ""
	eachInstr(fn, func(in ssa.Instruction) {
		ret, ok := in.(*ssa.Return)
		if !ok || len(ret.Results) == 0 || !isConstBool(ret.Results[0], true) {
			return
		}
		nTrue++
		if !loop.header.Dominates(in.Block()) {
			bad = p.instrPos(in)
		}
	})
	switch {
	case nTrue == 0:
		c.undecided(fnm+"|return true", p.pos(fn.Pos()), "no constant `return true` found")
	case bad != "":
		c.bad(fnm+"|return true", bad, "a `return true` is reachable without entering the column loop")
	default:
		c.ok(fnm+"|return true", p.pos(fn.Pos()), fmt.Sprintf("%d return(s) of true, all behind the column loop", nTrue))
	}
}

// fieldPathRootIsParam: v is prm, a field (of a field ...) of prm, or of the local variable prm was spilled to.
func fieldPathRootIsParam(v ssa.Value, prm *ssa.Parameter) bool {
	for i := 0; i < 12; i++ {
		switch t := v.(type) {
		case *ssa.UnOp:
			if t.Op != token.MUL {
				return false
			}
			v = t.X
		case *ssa.FieldAddr:
			v = t.X
		case *ssa.Field:
			v = t.X
		case *ssa.Slice:
			v = t.X
		case *ssa.Alloc:
			return singleDef(t) == ssa.Value(prm)
		case *ssa.Parameter:
			return t == prm
		default:
			return false
		}
	}
	return false
}

// ---- R69: ToCSV decides on the header before any success return ----

func init() {
	register(&Rule{ID: "R69", Name: "CSV-HEADER-ALWAYS", Floor: 1,
		Text: "in QFrame.ToCSV every return that can report success (a constant nil, or the csv writer's deferred Error()) is dominated by the branch on the Header option, and the header row is written inside that branch before the first data row: a frame without rows still produces its header line, so that ReadCSV of the output yields the typed zero-row frame instead of an EOF error",
		Run:  runR69})
}

func runR69(c *Ctx) {
	p := c.P
	fn := p.Func("", "QFrame.ToCSV")
	if fn == nil {
		c.undecided("QFrame.ToCSV", "-", "method not found")
		return
	}
	fnm := fname(fn)
	var headerIf *ssa.If
	eachInstr(fn, func(in ssa.Instruction) {
		iff, ok := in.(*ssa.If)
		if !ok {
			return
		}
		cond, _ := unNot(iff.Cond, true)
		if fieldNameOfLoad(cond) == "Header" {
			headerIf = iff
		}
	})
	if headerIf == nil {
		c.undecided(fnm+"|header branch", p.pos(fn.Pos()), "no branch on the Header option found")
		return
	}
	bad := ""
	n := 0
	eachInstr(fn, func(in ssa.Instruction) {
		ret, ok := in.(*ssa.Return)
		if !ok || len(ret.Results) != 1 {
			return
		}
		success := false
		switch r := ret.Results[0].(type) {
		case *ssa.Const:
			success = r.IsNil()
		case *ssa.Call:
			if o := calleeObj(r); o != nil && o.Name() == "Error" && o.Pkg() != nil && o.Pkg().Path() == "encoding/csv" {
				success = true
			}
		}
		if !success {
			return
		}
		n++
		if !headerIf.Block().Dominates(in.Block()) {
			bad = p.instrPos(in)
		}
	})
	switch {
	case n == 0:
		c.undecided(fnm+"|header branch", p.pos(fn.Pos()), "no success return found")
	case bad != "":
		c.bad(fnm+"|header branch", bad, "a success return is reachable without deciding on the header: for some frames (e.g. without rows) no header line is written and the output cannot be read back")
	default:
		c.ok(fnm+"|header branch", p.instrPos(headerIf), fmt.Sprintf("%d success return(s), all behind the Header branch", n))
	}
}

// ---- R71: the ReadSQL scanner column: back-fill of leading NULLs, precision on every float, NaN marker untouched ----

func init() {
	register(&Rule{ID: "R71", Name: "SQL-COLUMN", Floor: 4,
		Text: "in internal/io/sql.Column: (a) for every data slice that Null() appends a null marker to (the nullable kinds), each other method that appends to that slice back-fills the NULLs counted before the type was known: a loop bounded by the nulls counter that appends the null marker to the same slice (or a make of that slice with the counter as length) - leading NULLs keep their rows; (b) every value appended to the float slice is either the math.NaN() null marker or, evaluated (E5) in the worlds precision>0 / precision<=0, float.Fixed(value, precision) resp. the value itself - every float, scanned or coerced, is rounded in the one function all of them pass through; (c) the math.NaN() marker is never passed to Column.Float (float.Fixed would round it to a finite number)",
		Run:  runR71})
}

func runR71(c *Ctx) {
	p := c.P
	pkg := "internal/io/sql"
	nullFn := p.Func(pkg, "Column.Null")
	if nullFn == nil {
		c.undecided("sql.Column.Null", "-", "method not found")
		return
	}
	// data-slice field appended to by an append call: append(load(&X.data.F), ...) stored back to &X.data.F
	appendField := func(call *ssa.Call) string {
		if builtinName(call) != "append" || len(call.Call.Args) == 0 {
			return ""
		}
		ld, ok := call.Call.Args[0].(*ssa.UnOp)
		if !ok || ld.Op != token.MUL {
			return ""
		}
		fa, ok := ld.X.(*ssa.FieldAddr)
		if !ok {
			return ""
		}
		return fieldNameAt(fa)
	}
	appendedElems := func(call *ssa.Call) []ssa.Value {
		var out []ssa.Value
		if len(call.Call.Args) != 2 {
			return nil
		}
		sl, ok := call.Call.Args[1].(*ssa.Slice)
		if !ok {
			return nil
		}
		al, ok := sl.X.(*ssa.Alloc)
		if !ok {
			return nil
		}
		for _, r := range *al.Referrers() {
			if ia, ok := r.(*ssa.IndexAddr); ok {
				for _, r2 := range *ia.Referrers() {
					if st, ok := r2.(*ssa.Store); ok && st.Addr == ssa.Value(ia) {
						out = append(out, st.Val)
					}
				}
			}
		}
		return out
	}
	isNaNCall := func(v ssa.Value) bool {
		call, ok := v.(*ssa.Call)
		return ok && isFuncNamed(calleeObj(call), "math", "", "NaN")
	}
	nullable := map[string]bool{}
	eachInstr(nullFn, func(in ssa.Instruction) {
		if call, ok := in.(*ssa.Call); ok {
			if f := appendField(call); f != "" {
				nullable[f] = true
			}
		}
	})
	if len(nullable) == 0 {
		c.undecided("sql.Column.Null|kinds", p.pos(nullFn.Pos()), "Null() appends to no data slice")
		return
	}
	// (c)
	for _, fn := range p.FuncsIn(pkg) {
		eachInstr(fn, func(in ssa.Instruction) {
			call, ok := in.(*ssa.Call)
			if !ok {
				return
			}
			if callee := call.Call.StaticCallee(); callee != nil && callee.Name() == "Float" && callee.Pkg == fn.Pkg {
				for _, a := range call.Call.Args {
					if isNaNCall(a) {
						c.bad(fname(fn)+"|NaN through Float", p.instrPos(call), "the NaN null marker is passed to Column.Float, whose precision rounding turns it into a finite number")
					}
				}
			}
		})
	}
	floatField := ""
	for _, fn := range p.FuncsIn(pkg) {
		if fn.Signature.Recv() == nil || fn == nullFn {
			continue
		}
		fnm := fname(fn)
		perField := map[string][]*ssa.Call{}
		eachInstr(fn, func(in ssa.Instruction) {
			if call, ok := in.(*ssa.Call); ok {
				if f := appendField(call); f != "" {
					perField[f] = append(perField[f], call)
				}
			}
		})
		for f, calls := range perField {
			if !nullable[f] {
				continue
			}
			// (a) back-fill
			key := fnm + "|back-fill " + f
			found := false
			for _, li := range loopsOf(fn) {
				boundByNulls := false
				for _, in := range li.header.Instrs {
					if b, ok := in.(*ssa.BinOp); ok {
						// `i < nulls` (count up), or `nulls > 0` / `nulls != 0` (count the field itself down)
						k, isK := constInt(b.Y)
						switch {
						case b.Op == token.LSS && fieldNameOfLoad(b.Y) == "nulls":
							boundByNulls = true
						case (b.Op == token.GTR || b.Op == token.NEQ) && fieldNameOfLoad(b.X) == "nulls" && isK && k == 0:
							boundByNulls = true
						}
					}
				}
				if !boundByNulls {
					continue
				}
				for _, call := range calls {
					if inLoop(li, call.Block()) {
						found = true
					}
				}
			}
			eachInstr(fn, func(in ssa.Instruction) {
				if mk, ok := in.(*ssa.MakeSlice); ok && fieldNameOfLoad(mk.Len) == "nulls" {
					for _, r := range *mk.Referrers() {
						if st, ok := r.(*ssa.Store); ok {
							if fa, ok := st.Addr.(*ssa.FieldAddr); ok && fieldNameAt(fa) == f {
								found = true
							}
						}
					}
				}
			})
			// the back-fill must run whenever NULLs were counted: a guard on the counter may only say `nulls > 0`
			guardOdd := ""
			eachInstr(fn, func(in ssa.Instruction) {
				iff, ok := in.(*ssa.If)
				if !ok {
					return
				}
				cond, _ := unNot(iff.Cond, true)
				b, ok := cond.(*ssa.BinOp)
				if !ok || fieldNameOfLoad(b.X) != "nulls" {
					return
				}
				k, isK := constInt(b.Y)
				if !isK {
					return // the loop bound itself (i < nulls) has the counter on the right
				}
				okG := k == 0 && (b.Op == token.GTR || b.Op == token.NEQ || b.Op == token.EQL || b.Op == token.LEQ) || k == 1 && (b.Op == token.GEQ || b.Op == token.LSS)
				// polarity: the branch taken when nulls > 0 must lead to the loop
				if okG {
					posEdge := 0
					if b.Op == token.EQL || b.Op == token.LEQ || b.Op == token.LSS {
						posEdge = 1
					}
					if _, neg := iff.Cond.(*ssa.UnOp); neg {
						posEdge = 1 - posEdge
					}
					reaches := false
					for _, li := range loopsOf(fn) {
						for _, call := range calls {
							if inLoop(li, call.Block()) {
								for _, rb := range reachableAvoiding(iff.Block().Succs[posEdge], nil) {
									if rb == li.header {
										reaches = true
									}
								}
							}
						}
					}
					if !reaches {
						okG = false
					}
				}
				if !okG {
					guardOdd = fmt.Sprintf("the back-fill is guarded by `nulls %s %s` (or its branches are swapped), which is not `nulls > 0`: for some counts of leading NULLs the rows are not restored", b.Op, describe(b.Y))
				}
			})
			if found && guardOdd != "" {
				c.bad(key, p.pos(fn.Pos()), guardOdd)
			} else if found {
				c.ok(key, p.pos(fn.Pos()), "NULLs counted before the type was known are appended (loop bounded by the nulls counter)")
			} else {
				c.bad(key, p.pos(fn.Pos()), fmt.Sprintf("%s appends to %s, a slice Null() marks nulls in, but never back-fills the NULLs counted before the column's type was known: leading NULLs lose their rows and the column ends up shorter than the others", fn.Name(), f))
			}
		}
		// (b) floats
		for f, calls := range perField {
			isFloat := false
			for _, call := range calls {
				if sl, ok := call.Type().Underlying().(*types.Slice); ok && isFloatType(sl.Elem()) {
					isFloat = true
				}
			}
			if !isFloat {
				continue
			}
			floatField = f
			for _, call := range calls {
				elems := appendedElems(call)
				allNaN := len(elems) > 0
				for _, e := range elems {
					if !isNaNCall(e) {
						allNaN = false
					}
				}
				if allNaN {
					continue // null marker
				}
				for _, world := range []bool{true, false} {
					key := fmt.Sprintf("%s|float append, world precision>0=%v", fnm, world)
					pe := &pathExec{fn: fn}
					var got ssa.Value
					precisionOdd := ""
					atom := func(x ssa.Value) (bool, bool) {
						b, ok := x.(*ssa.BinOp)
						if !ok {
							return false, false
						}
						if fieldNameOfLoad(b.X) == "precision" {
							// only tests that mean `precision > 0` are understood: > 0, != 0, >= 1 and their negations
							k, isK := constInt(b.Y)
							switch {
							case isK && k == 0 && (b.Op == token.GTR || b.Op == token.NEQ), isK && k == 1 && b.Op == token.GEQ:
								return world, true
							case isK && k == 0 && (b.Op == token.LEQ || b.Op == token.EQL), isK && k == 1 && b.Op == token.LSS:
								return !world, true
							}
							precisionOdd = fmt.Sprintf("the precision is tested as `%s %s %s`, which is not `precision > 0`: some configured precisions are ignored", "precision", b.Op, describe(b.Y))
							return false, false
						}
						if fieldNameOfLoad(b.X) == "ptr" || fieldNameOfLoad(b.X) == "kind" {
							return b.Op == token.NEQ, true // the type is already known
						}
						if fieldNameOfLoad(b.X) == "nulls" || fieldNameOfLoad(b.Y) == "nulls" {
							return false, true
						}
						return false, false
					}
					pe.oracle = func(pe *pathExec, cond ssa.Value) (bool, bool) { return pe.evalBool(cond, atom) }
					// a helper of the package that answers `was the type still unknown`: evaluated in place
					pe.inline = func(callee *ssa.Function) bool {
						if callee.Pkg != fn.Pkg || callee.Signature.Results().Len() != 1 {
							return false
						}
						b, ok := callee.Signature.Results().At(0).Type().Underlying().(*types.Basic)
						return ok && b.Kind() == types.Bool
					}
					pe.onInstr = func(pe *pathExec, in ssa.Instruction) {
						if in == ssa.Instruction(call) {
							if es := appendedElems(call); len(es) == 1 {
								got = pe.resolve(es[0])
							}
							if sl, ok := call.Call.Args[1].(*ssa.Slice); ok {
								if k, ok := cellKey(sl.X); ok {
									if v, ok := pe.mem[k+"[0]"]; ok {
										got = v
									}
								}
							}
						}
					}
					end, why := pe.run()
					if precisionOdd != "" {
						c.bad(key, p.instrPos(call), precisionOdd)
						continue
					}
					if _, ok := end.(*ssa.Return); !ok {
						c.undecided(key, p.instrPos(call), "cannot evaluate: "+why)
						continue
					}
					if got == nil {
						c.undecided(key, p.instrPos(call), "the append is not reached in this world")
						continue
					}
					fixed := false
					if cl, ok := got.(*ssa.Call); ok && isFuncNamed(calleeObj(cl), rel("internal/math/float"), "", "Fixed") {
						fixed = true
					}
					_, isParam := got.(*ssa.Parameter)
					switch {
					case world && fixed:
						c.ok(key, p.instrPos(call), "the appended value is float.Fixed(value, precision)")
					case !world && isParam:
						c.ok(key, p.instrPos(call), "the appended value is the value itself")
					case world:
						c.bad(key, p.instrPos(call), "with a precision configured the value is appended unrounded ("+describe(got)+"): floats that reach the column through this function (coercions, other scan types) ignore Precision(n)")
					default:
						c.bad(key, p.instrPos(call), "without a precision the appended value is not the scanned value ("+describe(got)+")")
					}
				}
			}
		}
	}
	if floatField == "" {
		c.undecided("sql.Column|float slice", p.pos(nullFn.Pos()), "no method appends to a float slice")
	}
}

// ---- R68: an apply kernel returns its source column only when that column is physically empty ----

func init() {
	register(&Rule{ID: "R68", Name: "APPLY-NOT-SOURCE", Floor: 5,
		Text: "in the column packages, a function that takes a row index (index.Int) and produces a column value (Apply1, Apply2 and the built-in apply functions stored in the per-type function tables) returns its own source column (receiver or Column parameter) only under a dominating guard that the column's physical storage is empty (len(storage) == 0): for any other input, and in particular for an empty row selection over a non-empty column (FilteredApply matching nothing), the result is a new column sized by the storage whose unselected rows are zero/null, not a copy of the source",
		Run:  runR68})
}

func runR68(c *Ctx) {
	p := c.P
	f := p.idxFacts()
	for _, cp := range columnPkgs {
		for _, fn := range p.FuncsIn(cp) {
			if fn.Parent() != nil {
				continue
			}
			hasIx := false
			var cols []*ssa.Parameter
			for _, prm := range fn.Params {
				if isIntIndexType(prm.Type()) {
					hasIx = true
				}
				if n, ok := prm.Type().(*types.Named); ok && n.Obj().Name() == "Column" && n.Obj().Pkg() == fn.Pkg.Pkg {
					cols = append(cols, prm)
				}
			}
			res := fn.Signature.Results()
			if !hasIx || len(cols) == 0 || res.Len() == 0 {
				continue
			}
			if it, isIface := res.At(0).Type().Underlying().(*types.Interface); !isIface || it.NumMethods() != 0 {
				continue // apply results are interface{}; Rolling (column.Column) is an unimplemented stub outside every property
			}
			fnm := fname(fn)
			n := 0
			eachInstr(fn, func(in ssa.Instruction) {
				ret, ok := in.(*ssa.Return)
				if !ok || len(ret.Results) == 0 {
					return
				}
				v := ret.Results[0]
				if mi, ok := v.(*ssa.MakeInterface); ok {
					v = mi.X
				}
				var src *ssa.Parameter
				for _, cprm := range cols {
					if fieldPathRootIsParam(v, cprm) {
						if _, isCol := v.Type().(*types.Named); isCol && types.Identical(v.Type(), cprm.Type()) {
							src = cprm
						}
					}
				}
				if src == nil {
					return
				}
				n++
				key := fnm + "|returns its source"
				guarded := false
				for _, g := range dominatingGuards(in.Block()) {
					b, ok := g.Cond.(*ssa.BinOp)
					if !ok {
						continue
					}
					call, ok := b.X.(*ssa.Call)
					if !ok || builtinName(call) != "len" {
						continue
					}
					k, isK := constInt(b.Y)
					if !isK || k != 0 {
						continue
					}
					if !(b.Op == token.EQL && g.Val || b.Op == token.NEQ && !g.Val || b.Op == token.GTR && !g.Val) {
						continue
					}
					if f.isStorage(call.Call.Args[0]) && fieldPathRootIsParam(call.Call.Args[0], src) {
						guarded = true
					}
				}
				if guarded {
					c.ok(key, p.instrPos(ret), "only when the column's storage is empty")
				} else {
					c.bad(key, p.instrPos(ret), "the source column itself is returned as the result without a guard that its storage is empty: rows that were not selected keep the source's values instead of zero/null")
				}
			})
			if n == 0 {
				c.okTrivial(fnm+"|never returns its source", p.pos(fn.Pos()), "every result is a new value")
			}
		}
	}
}

// ---- R72: a reused buffer filled by index is written on every iteration ----

func init() {
	register(&Rule{ID: "R72", Name: "BUFFER-FULL-WRITE", Floor: 20,
		Text: "in the column packages and the root package, a loop that fills a slice by the loop's own key (`for i := range X { R[i] = ... }`) either fills a slice freshly allocated in the function (zero-initialised: skipped elements are zero/null), or stores R[i] on every path through the iteration (no path from the loop body to the next iteration avoids all stores to R[i]): a buffer that is reused between calls or groups keeps the previous call's values in the elements an iteration skips",
		Run:  runR72})
}

func runR72(c *Ctx) {
	p := c.P
	scope := append([]string{""}, columnPkgs...)
	for _, pkg := range scope {
		for _, fn := range p.FuncsIn(pkg) {
			loops := loopsOf(fn)
			if len(loops) == 0 {
				continue
			}
			fnm := fname(fn)
			type grp struct {
				li     *loopInfo
				target ssa.Value
			}
			stores := map[grp][]*ssa.Store{}
			eachInstr(fn, func(in ssa.Instruction) {
				st, ok := in.(*ssa.Store)
				if !ok {
					return
				}
				ia, ok := st.Addr.(*ssa.IndexAddr)
				if !ok {
					return
				}
				if _, isSlice := ia.X.Type().Underlying().(*types.Slice); !isSlice || isBoolIndex(ia.X.Type()) {
					return // the boolean row index is an accumulator: filter kernels skip rows already decided (R3)
				}
				for i := range loops {
					li := &loops[i]
					if li.key == nil || li.key != ia.Index || !inLoop(*li, in.Block()) {
						continue
					}
					g := grp{li, ia.X}
					stores[g] = append(stores[g], st)
				}
			})
			for g, sts := range stores {
				key := fnm + "|fill " + accessPath(g.target)
				pos := p.instrPos(sts[0])
				fresh := freshSlice(g.target, map[ssa.Value]bool{})
				isStore := func(b *ssa.BasicBlock) bool {
					for _, st := range sts {
						if st.Block() == b {
							return true
						}
					}
					return false
				}
				// body entry: the successor of the header that stays in the loop
				skipped := false
				for _, succ := range g.li.header.Succs {
					if !inLoop(*g.li, succ) || succ == g.li.header {
						continue
					}
					for _, b := range reachableAvoiding(succ, func(b *ssa.BasicBlock) bool { return isStore(b) || !inLoop(*g.li, b) && b != g.li.header }) {
						if b == g.li.header {
							skipped = true
						}
					}
				}
				if isStore(g.li.header) {
					skipped = false
				}
				if fresh && skipped {
					// a skip taken because the cell is null leaves the zero value / nil on purpose: re-explore without
					// following the `is null` edges
					skipped = false
					var dfs func(b *ssa.BasicBlock, seen map[*ssa.BasicBlock]bool)
					dfs = func(b *ssa.BasicBlock, seen map[*ssa.BasicBlock]bool) {
						if seen[b] || skipped {
							return
						}
						seen[b] = true
						if b == g.li.header {
							skipped = true
							return
						}
						if isStore(b) || !inLoop(*g.li, b) {
							return
						}
						follow := []bool{true, true}
						if iff, ok := b.Instrs[len(b.Instrs)-1].(*ssa.If); ok {
							cond, val := unNot(iff.Cond, true)
							if isNullPredicate(cond) {
								if val {
									follow[0] = false
								} else {
									follow[1] = false
								}
							}
						}
						for i, sc := range b.Succs {
							if i < 2 && !follow[i] {
								continue
							}
							dfs(sc, seen)
						}
					}
					for _, succ := range g.li.header.Succs {
						if inLoop(*g.li, succ) && succ != g.li.header {
							dfs(succ, map[*ssa.BasicBlock]bool{})
						}
					}
				}
				if fresh && skipped {
					c.bad(key, pos, fmt.Sprintf("%s is filled element by element but an iteration can reach the next one without storing its element: that element silently stays zero (a case of the conversion that forgets its assignment)", accessPath(g.target)))
					continue
				}
				if fresh {
					c.okTrivial(key, pos, "allocated in this function and every iteration stores its element")
					continue
				}
				if skipped {
					c.bad(key, pos, fmt.Sprintf("%s may be a buffer handed in by the caller (not allocated here) and an iteration can reach the next one without storing element [key]: that element keeps what an earlier call or group left there", accessPath(g.target)))
				} else {
					c.ok(key, pos, "not allocated here, but every iteration stores its element")
				}
			}
		}
	}
}

// ---- R73: the null flag of a string cell comes from the nilness of the source pointer ----

func init() {
	register(&Rule{ID: "R73", Name: "NULL-FLAG-SOURCE", Floor: 5,
		Text: "at every call of strings.NewPointer(offset, len, isNull) the null flag is (a) the null flag of an existing cell (second result of stringAt/bytesAt, Pointer.IsNull()), or (b) the constant true under a dominating guard that the source *string is nil (or, in the CSV reader, that the field is empty and EmptyNull is set), or (c) the constant false - where the function has *string sources only under a dominating guard that the source pointer is not nil -, or (d) literally `ptr == nil` for the *string source. A flag computed from anything else (the length or nilness of a byte buffer) makes the empty string null or a null an empty string",
		Run:  runR73})
}

func runR73(c *Ctx) {
	p := c.P
	isStrPtr := func(t types.Type) bool {
		pt, ok := t.Underlying().(*types.Pointer)
		if !ok {
			return false
		}
		b, ok := pt.Elem().Underlying().(*types.Basic)
		return ok && b.Kind() == types.String
	}
	nilTestOfStrPtr := func(v ssa.Value) (*ssa.BinOp, bool) {
		b, ok := v.(*ssa.BinOp)
		if !ok || b.Op != token.EQL && b.Op != token.NEQ {
			return nil, false
		}
		if cst, ok := b.Y.(*ssa.Const); ok && cst.IsNil() && isStrPtr(b.X.Type()) {
			return b, true
		}
		if cst, ok := b.X.(*ssa.Const); ok && cst.IsNil() && isStrPtr(b.Y.Type()) {
			return b, true
		}
		return nil, false
	}
	for _, fn := range p.Funcs {
		if fn.Pkg == nil || !inModule(fn.Pkg.Pkg) {
			continue
		}
		hasPtrSource := false
		for _, prm := range fn.Params {
			t := prm.Type()
			if sl, ok := t.Underlying().(*types.Slice); ok {
				t = sl.Elem()
			}
			if isStrPtr(t) {
				hasPtrSource = true
			}
		}
		fnm := fname(fn)
		eachInstr(fn, func(in ssa.Instruction) {
			call, ok := in.(*ssa.Call)
			if ok && isFuncNamed(calleeObj(call), rel("internal/ecolumn"), "Factory", "AppendNil") {
				// the enum counterpart: a null code is appended only for a nil source pointer, or in the CSV
				// reader for an empty field when EmptyNull is set (otherwise the empty string is a value that
				// the factory accepts or, with declared values, rejects)
				key := fnm + "|enum null"
				underNil, underEmptyNull := false, false
				for _, g := range dominatingGuards(call.Block()) {
					if b, ok := nilTestOfStrPtr(g.Cond); ok && (b.Op == token.EQL) == g.Val {
						underNil = true
					}
					if g.Val && p.isEmptyNullValue(g.Cond, 0) {
						underEmptyNull = true
					}
				}
				if underNil || underEmptyNull {
					c.ok(key, p.instrPos(call), "null code under a guard that the source pointer is nil / the field is empty with EmptyNull")
				} else {
					c.bad(key, p.instrPos(call), "a null enum cell is appended without a dominating test that the source *string is nil or (CSV) that EmptyNull is set: the empty string becomes null, and an empty cell in a column with declared values is accepted instead of rejected")
				}
				return
			}
			if !ok || !isFuncNamed(calleeObj(call), rel("internal/strings"), "", "NewPointer") || len(call.Call.Args) != 3 {
				return
			}
			flag := call.Call.Args[2]
			key := fnm + "|null flag"
			pos := p.instrPos(call)
			guards := dominatingGuards(call.Block())
			underNil, underNotNil, underEmptyNull := false, false, false
			for _, g := range guards {
				if b, ok := nilTestOfStrPtr(g.Cond); ok {
					isNil := (b.Op == token.EQL) == g.Val
					if isNil {
						underNil = true
					} else {
						underNotNil = true
					}
				}
				if g.Val && p.isEmptyNullValue(g.Cond, 0) {
					underEmptyNull = true
				}
			}
			switch {
			case isNullPredicate(flag):
				c.ok(key, pos, "the null flag of an existing cell")
			case isConstBool(flag, true):
				if underNil || underEmptyNull {
					c.ok(key, pos, "null under a guard that the source pointer is nil / the field is empty with EmptyNull")
				} else if overriddenUnder(call, func(b *ssa.BasicBlock) bool {
					for _, g := range dominatingGuards(b) {
						if bo, ok := nilTestOfStrPtr(g.Cond); ok && (bo.Op == token.EQL) != g.Val {
							return true
						}
					}
					return false
				}) {
					c.ok(key, pos, "default null cell, replaced by a non-null cell on the branch where the source pointer is not nil")
				} else {
					c.bad(key, pos, "a cell is marked null without a dominating test that its source pointer is nil")
				}
			case isConstBool(flag, false):
				if !hasPtrSource || underNotNil || hasEmptyNullElse(p, guards) {
					c.ok(key, pos, "non-null: the source cannot be nil here")
				} else {
					c.bad(key, pos, "a cell is marked non-null although its *string source is not known to be non-nil at this point")
				}
			default:
				if _, ok := nilTestOfStrPtr(flag); ok {
					c.ok(key, pos, "the flag is the nil test of the source pointer")
				} else if !hasPtrSource && p.impliesEmptyNull(flag) {
					c.ok(key, pos, "the flag is a conjunction with the EmptyNull option: a cell is null only when the option is set")
				} else {
					c.bad(key, pos, fmt.Sprintf("the null flag is computed from %s, not from the nilness of the source pointer: an empty string becomes null (or a null an empty string)", describe(flag)))
				}
			}
		})
	}
}

func hasEmptyNullElse(p *Prog, guards []guard) bool {
	for _, g := range guards {
		if p.isEmptyNullValue(g.Cond, 0) {
			return true
		}
	}
	return false
}

// ---- R74: enum value tables hold each string once ----

func init() {
	register(&Rule{ID: "R74", Name: "ENUM-UNIQUE", Floor: 4,
		Text: "every value stored into the values table of an ecolumn.Column (composite literal or field assignment, in package internal/ecolumn) is (a) the values table of an existing column, unchanged, (b) a parameter (the declared values handed to the factory, or a copy of them made by append onto an empty slice), or (c) a slice grown only by appends of a string s that are guarded by a failed comma-ok lookup of s in a map that then records s (in the same function, or - for the minting helper - at every call chain into it): filters translate a constant to one code, and grouping, Distinct and sorting work on codes, so two codes with the same string would make equal cells behave differently",
		Run:  runR74})
}

// isDeclaredRegistration: the call hands the elements of a []string parameter of its function (the declared
// values), one per iteration of a range over that parameter, to a method of an object allocated in that same
// function (a factory under construction). The table built that way is an element-wise copy of the declared list.
func isDeclaredRegistration(call *ssa.Call) bool {
	fn := call.Parent()
	args := call.Call.Args
	if len(args) < 2 {
		return false
	}
	// receiver rooted at an allocation of this function
	recv := args[0]
	for {
		switch t := recv.(type) {
		case *ssa.FieldAddr:
			recv = t.X
			continue
		case *ssa.UnOp:
			recv = t.X
			continue
		}
		break
	}
	if _, ok := recv.(*ssa.Alloc); !ok {
		return false
	}
	for _, li := range loopsOf(fn) {
		if li.base == nil || !inLoop(li, call.Block()) {
			continue
		}
		prm, ok := li.base.(*ssa.Parameter)
		if !ok {
			continue
		}
		sl, ok := prm.Type().Underlying().(*types.Slice)
		if !ok {
			continue
		}
		if b, ok := sl.Elem().Underlying().(*types.Basic); !ok || b.Kind() != types.String {
			continue
		}
		for _, a := range args[1:] {
			if ld, ok := stripConv(a).(*ssa.UnOp); ok && ld.Op == token.MUL {
				if ia, ok := ld.X.(*ssa.IndexAddr); ok && ia.X == ssa.Value(prm) && rangeKeyOf(ia.Index, prm) {
					return true
				}
			}
		}
	}
	return false
}

func runR74(c *Ctx) {
	p := c.P
	pkg := "internal/ecolumn"
	res := p.resolver()
	callers := map[*ssa.Function][]*ssa.Call{}
	for _, fn := range p.FuncsIn(pkg) {
		eachInstr(fn, func(in ssa.Instruction) {
			if call, ok := in.(*ssa.Call); ok {
				for _, callee := range res.callees(call) {
					callers[callee] = append(callers[callee], call)
				}
			}
		})
	}
	// failedLookupGuards: block b is dominated by `_, ok := m[k]` with ok false
	failedLookup := func(b *ssa.BasicBlock, key ssa.Value) bool {
		for _, g := range dominatingGuards(b) {
			ex, ok := g.Cond.(*ssa.Extract)
			if !ok || ex.Index != 1 || g.Val {
				continue
			}
			lk, ok := ex.Tuple.(*ssa.Lookup)
			if !ok || !lk.CommaOk {
				continue
			}
			if key == nil || stripStringConv(lk.Index) == stripStringConv(key) {
				return true
			}
		}
		return false
	}
	var guardedEntry func(fn *ssa.Function, d int) bool
	guardedEntry = func(fn *ssa.Function, d int) bool {
		if d > 3 || len(callers[fn]) == 0 {
			return false
		}
		for _, call := range callers[fn] {
			if failedLookup(call.Block(), nil) {
				continue
			}
			if isDeclaredRegistration(call) {
				continue // category (b): an element-wise copy of the declared values into a fresh factory
			}
			if !guardedEntry(call.Parent(), d+1) {
				return false
			}
		}
		return true
	}
	var classify func(v ssa.Value, fn *ssa.Function, seen map[ssa.Value]bool) string // "" = ok, else reason
	classify = func(v ssa.Value, fn *ssa.Function, seen map[ssa.Value]bool) string {
		if seen[v] {
			return ""
		}
		seen[v] = true
		switch t := v.(type) {
		case *ssa.Parameter:
			return ""
		case *ssa.Const:
			return ""
		case *ssa.Phi:
			for _, e := range t.Edges {
				if why := classify(e, fn, seen); why != "" {
					return why
				}
			}
			return ""
		case *ssa.UnOp:
			if t.Op == token.MUL {
				if fa, ok := t.X.(*ssa.FieldAddr); ok && fieldNameAt(fa) == "values" {
					return "" // an existing table
				}
				if al, ok := t.X.(*ssa.Alloc); ok {
					for _, r := range *al.Referrers() {
						if st, ok := r.(*ssa.Store); ok && st.Addr == ssa.Value(al) {
							if why := classify(st.Val, fn, seen); why != "" {
								return why
							}
						}
					}
					return ""
				}
			}
		case *ssa.Field:
			if st, ok := t.X.Type().Underlying().(*types.Struct); ok && st.Field(t.Field).Name() == "values" {
				return ""
			}
		case *ssa.MakeSlice:
			// a copy of the declared values: make([]string, len(p)) filled by copy(new, p) and nothing else
			if lc, ok := t.Len.(*ssa.Call); ok && builtinName(lc) == "len" {
				if _, isParam := rootValue(lc.Call.Args[0]).(*ssa.Parameter); isParam {
					copied, other := false, false
					for _, r := range *t.Referrers() {
						switch u := r.(type) {
						case *ssa.Call:
							if builtinName(u) == "copy" && u.Call.Args[0] == ssa.Value(t) && sameValue2(u.Call.Args[1], lc.Call.Args[0], 0) {
								copied = true
							}
						case *ssa.IndexAddr:
							for _, r2 := range *u.Referrers() {
								if _, isSt := r2.(*ssa.Store); isSt {
									other = true
								}
							}
						}
					}
					if copied && !other {
						return ""
					}
				}
			}
			// only acceptable when nothing is stored into it by index (it is then empty or zero-length)
			for _, r := range *t.Referrers() {
				if ia, ok := r.(*ssa.IndexAddr); ok {
					for _, r2 := range *ia.Referrers() {
						if st, ok := r2.(*ssa.Store); ok && st.Addr == ssa.Value(ia) {
							return "strings are stored by index into a new table (" + p.instrPos(st) + ") without checking whether the table already holds them"
						}
					}
				}
			}
			if k, ok := constInt(t.Len); !ok || k != 0 {
				return "a table of non-zero length is allocated and filled by index"
			}
			return ""
		case *ssa.Call:
			if builtinName(t) == "append" && len(t.Call.Args) == 2 {
				if why := classify(t.Call.Args[0], fn, seen); why != "" {
					return why
				}
				// append(x, y...) of a whole parameter slice onto an empty slice: a copy of the declared values
				if _, isParam := rootValue(t.Call.Args[1]).(*ssa.Parameter); isParam {
					return ""
				}
				var elem ssa.Value
				if sl, ok := t.Call.Args[1].(*ssa.Slice); ok {
					if al, ok := sl.X.(*ssa.Alloc); ok {
						for _, r := range *al.Referrers() {
							if ia, ok := r.(*ssa.IndexAddr); ok {
								for _, r2 := range *ia.Referrers() {
									if st, ok := r2.(*ssa.Store); ok {
										elem = st.Val
									}
								}
							}
						}
					}
				}
				if elem == nil {
					return "a slice of unknown strings is appended to the table at " + p.instrPos(t)
				}
				// recorded in a map in the same block
				recorded := false
				for _, in := range t.Block().Instrs {
					if mu, ok := in.(*ssa.MapUpdate); ok && stripStringConv(mu.Key) == stripStringConv(elem) {
						recorded = true
					}
				}
				if !recorded {
					return "the string appended at " + p.instrPos(t) + " is not recorded in a lookup map in the same step"
				}
				if failedLookup(t.Block(), elem) || guardedEntry(t.Parent(), 0) {
					return ""
				}
				return "the append at " + p.instrPos(t) + " is not guarded by a failed lookup of the appended string"
			}
		}
		// built by a helper of the package: judged on what the helper returns in that position
		if ex, ok := v.(*ssa.Extract); ok {
			if call, ok := ex.Tuple.(*ssa.Call); ok {
				if h := call.Call.StaticCallee(); h != nil && h.Pkg == fn.Pkg && h.Blocks != nil {
					why := ""
					eachInstr(h, func(in ssa.Instruction) {
						if r, ok := in.(*ssa.Return); ok && why == "" && ex.Index < len(r.Results) {
							why = classify(r.Results[ex.Index], h, seen)
						}
					})
					return why
				}
			}
		}
		if call, ok := v.(*ssa.Call); ok {
			if h := call.Call.StaticCallee(); h != nil && h.Pkg == fn.Pkg && h.Blocks != nil && h.Signature.Results().Len() == 1 {
				why := ""
				eachInstr(h, func(in ssa.Instruction) {
					if r, ok := in.(*ssa.Return); ok && why == "" {
						why = classify(r.Results[0], h, seen)
					}
				})
				return why
			}
		}
		return "the table is " + describe(v) + ", which is neither an existing table, the declared values nor a de-duplicated accumulation"
	}
	for _, fn := range p.FuncsIn(pkg) {
		fnm := fname(fn)
		eachInstr(fn, func(in ssa.Instruction) {
			st, ok := in.(*ssa.Store)
			if !ok {
				return
			}
			fa, ok := st.Addr.(*ssa.FieldAddr)
			if !ok || fieldNameAt(fa) != "values" {
				return
			}
			if n, ok := deref(fa.X.Type()).(*types.Named); !ok || n.Obj().Name() != "Column" {
				return
			}
			key := fnm + "|values table"
			if why := classify(st.Val, fn, map[ssa.Value]bool{}); why == "" {
				c.ok(key, p.instrPos(st), "existing table, declared values, or de-duplicated accumulation")
			} else {
				c.bad(key, p.instrPos(st), "an enum values table may contain the same string twice: "+why)
			}
		})
	}
}

func stripStringConv(v ssa.Value) ssa.Value {
	for {
		switch t := v.(type) {
		case *ssa.Convert:
			v = t.X
		case *ssa.ChangeType:
			v = t.X
		default:
			return v
		}
	}
}

// ---- R76: whatever enumerates column data types enumerates all five ----

func init() {
	register(&Rule{ID: "R76", Name: "DATATYPES-EXHAUSTIVE", Floor: 1,
		Text: "every composite literal (slice, array, map keys) and every expression switch without a default clause that names three or more of the five column data types (types.Int, types.Float, types.Bool, types.Enum, types.String) names all five: a partition of the columns by type that forgets one type silently drops those columns (a Distinct key without its bool columns)",
		Run:  runR76})
}

func runR76(c *Ctx) {
	p := c.P
	all := []string{"Bool", "Enum", "Float", "Int", "String"}
	dtConst := func(info *types.Info, e ast.Expr) string {
		var id *ast.Ident
		switch t := e.(type) {
		case *ast.SelectorExpr:
			id = t.Sel
		case *ast.Ident:
			id = t
		default:
			return ""
		}
		obj, ok := info.Uses[id].(*types.Const)
		if !ok || obj.Pkg() == nil || obj.Pkg().Path() != rel("types") {
			return ""
		}
		for _, a := range all {
			if obj.Name() == a {
				return a
			}
		}
		return ""
	}
	report := func(kind string, pos token.Pos, seen map[string]bool) {
		if len(seen) < 3 {
			return
		}
		position := p.Fset.Position(pos)
		file := position.Filename
		if r, err := filepath.Rel(p.Dir, file); err == nil {
			file = r
		}
		key := fmt.Sprintf("%s|%s of data types", file, kind)
		var missing []string
		for _, a := range all {
			if !seen[a] {
				missing = append(missing, "types."+a)
			}
		}
		at := fmt.Sprintf("%s:%d", file, position.Line)
		if len(missing) == 0 {
			c.ok(key, at, "names all five column data types")
		} else {
			c.bad(key, at, fmt.Sprintf("names %d of the five column data types but not %s: columns of that type fall through", len(seen), strings.Join(missing, ", ")))
		}
	}
	for _, pk := range p.Pkgs {
		for _, f := range pk.Syntax {
			ast.Inspect(f, func(n ast.Node) bool {
				switch t := n.(type) {
				case *ast.CompositeLit:
					seen := map[string]bool{}
					for _, el := range t.Elts {
						if kv, ok := el.(*ast.KeyValueExpr); ok {
							if s := dtConst(pk.TypesInfo, kv.Key); s != "" {
								seen[s] = true
							}
							continue
						}
						if s := dtConst(pk.TypesInfo, el); s != "" {
							seen[s] = true
						}
					}
					report("literal", t.Pos(), seen)
				case *ast.SwitchStmt:
					seen := map[string]bool{}
					hasDefault := false
					for _, st := range t.Body.List {
						cc, ok := st.(*ast.CaseClause)
						if !ok {
							continue
						}
						if cc.List == nil {
							hasDefault = true
						}
						for _, e := range cc.List {
							if s := dtConst(pk.TypesInfo, e); s != "" {
								seen[s] = true
							}
						}
					}
					if !hasDefault {
						report("switch", t.Pos(), seen)
					}
				}
				return true
			})
		}
	}
}

// overriddenUnder: the call's result is a default that only flows into phis whose other edges are NewPointer
// calls made in blocks satisfying cond (`p := null; if val != nil { p = nonNull }`).
func overriddenUnder(call *ssa.Call, cond func(b *ssa.BasicBlock) bool) bool {
	refs := call.Referrers()
	if refs == nil || len(*refs) == 0 {
		return false
	}
	n := 0
	for _, r := range *refs {
		switch t := r.(type) {
		case *ssa.DebugRef:
		case *ssa.Phi:
			n++
			others := 0
			for _, e := range t.Edges {
				if e == ssa.Value(call) {
					continue
				}
				oc, ok := e.(*ssa.Call)
				if !ok || !isFuncNamed(calleeObj(oc), rel("internal/strings"), "", "NewPointer") || !cond(oc.Block()) {
					return false
				}
				others++
			}
			if others == 0 {
				return false
			}
		default:
			return false
		}
	}
	return n > 0
}

// writesEntriesField: the function assigns the table's entries slice (grow).
func writesEntriesField(fn *ssa.Function) bool {
	hit := false
	eachInstr(fn, func(in ssa.Instruction) {
		if st, ok := in.(*ssa.Store); ok {
			if fa, ok := st.Addr.(*ssa.FieldAddr); ok && isEntriesSlice(deref(fa.Type())) {
				hit = true
			}
		}
	})
	return hit
}

// instrAfter: b comes after a in the same block.
func instrAfter(a, b ssa.Instruction) bool {
	if a.Block() != b.Block() {
		return false
	}
	seenA := false
	for _, in := range a.Block().Instrs {
		if in == a {
			seenA = true
		} else if in == b {
			return seenA
		}
	}
	return false
}
