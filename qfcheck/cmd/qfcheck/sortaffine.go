package main

import (
	"fmt"
	"go/token"
	"go/types"
	"math/big"
	"sort"

	"golang.org/x/tools/go/ssa"
)

// R120 SORT-AFFINE: translation equivariance of the index arithmetic in internal/sort.
//
// The sort functions work on a sub-range [a, b) of the sorter's index. An integer in them is either an
// absolute index (it moves with the range: a, b, pivot, first+child) or an offset/length (it does not: b-a,
// (hi-lo)/8, the heap coordinates of siftDown). Give every integer value a weight: 1 for an absolute index,
// 0 for an offset; weights add under + and -, scale under multiplication/division/shift by a constant.
// Every index handed to Less/Swap must have weight exactly 1 - an expression of any other weight addresses an
// element that depends on where the range lies, so the function is right for ranges starting at 0 at most and
// wrong inside quickSort's recursion. The weights of parameters, phis and results are the unknowns of a linear
// system over the rationals; the rule solves it incrementally and reports the construct whose equation makes
// it inconsistent.

func init() {
	register(&Rule{ID: "R120", Name: "SORT-AFFINE", Floor: 40,
		Text: "the index arithmetic of the package-level sort functions (internal/sort: quickSort, doPivot, medianOfThree, heapSort, siftDown, insertionSort and whatever helpers they get) is translation-equivariant: every integer value gets a weight - 1 for an absolute index into the sorter's range, 0 for an offset or length; weights add under + and -, scale under * / << >> by a constant, are equal across a phi, across the two sides of an order comparison and between an argument and the parameter it is bound to - and every index handed to the sorter's element methods (the methods that index Sorter.index with an int parameter: Less, Swap) has weight exactly 1. The weights of parameters, phis and call results are the unknowns of a linear system over the rationals, solved incrementally callee first; the construct whose equation makes it inconsistent is reported. An expression of another weight (a heap-relative coordinate passed where an absolute one is expected, b+a for b-a, (lo+hi)/8) addresses elements that depend on where the range lies: right at most for the range starting at 0, wrong inside the recursion",
		Run:  runR120})
}

// linear form over unknowns (weights), constant part is always 0 (constants have weight 0).
type linForm map[int]*big.Rat

func (f linForm) clone() linForm {
	g := linForm{}
	for k, v := range f {
		g[k] = new(big.Rat).Set(v)
	}
	return g
}
func (f linForm) addScaled(g linForm, k *big.Rat) linForm {
	out := f.clone()
	for u, c := range g {
		t := new(big.Rat).Mul(c, k)
		if o, ok := out[u]; ok {
			o.Add(o, t)
			if o.Sign() == 0 {
				delete(out, u)
			}
		} else if t.Sign() != 0 {
			out[u] = t
		}
	}
	return out
}
func (f linForm) scale(k *big.Rat) linForm { return linForm{}.addScaled(f, k) }

type linSystem struct {
	// pivot unknown -> (form over non-pivot unknowns, constant): u = form + c
	rows map[int]linRow
}
type linRow struct {
	f linForm
	c *big.Rat
}

func newLinSystem() *linSystem { return &linSystem{rows: map[int]linRow{}} }

// reduce substitutes the pivots into f (+ c).
func (s *linSystem) reduce(f linForm, c *big.Rat) (linForm, *big.Rat) {
	out := linForm{}
	cc := new(big.Rat).Set(c)
	for u, k := range f {
		if r, ok := s.rows[u]; ok {
			out = out.addScaled(r.f, k)
			cc.Add(cc, new(big.Rat).Mul(r.c, k))
		} else {
			out = out.addScaled(linForm{u: big.NewRat(1, 1)}, k)
		}
	}
	return out, cc
}

// addEq adds f = rhs. Returns false when the system becomes inconsistent (the equation is then not added).
func (s *linSystem) addEq(f linForm, rhs *big.Rat) bool {
	// f - rhs = 0
	g, c := s.reduce(f, new(big.Rat).Neg(rhs))
	if len(g) == 0 {
		return c.Sign() == 0
	}
	// choose the smallest unknown as pivot (deterministic)
	piv := -1
	for u := range g {
		if piv < 0 || u < piv {
			piv = u
		}
	}
	k := new(big.Rat).Inv(g[piv])
	k.Neg(k)
	delete(g, piv)
	row := linRow{f: g.scale(k), c: new(big.Rat).Mul(c, k)}
	// substitute into existing rows
	for u, r := range s.rows {
		if coef, ok := r.f[piv]; ok {
			nf := r.f.clone()
			delete(nf, piv)
			nf = nf.addScaled(row.f, coef)
			nc := new(big.Rat).Add(r.c, new(big.Rat).Mul(row.c, coef))
			s.rows[u] = linRow{f: nf, c: nc}
		}
	}
	s.rows[piv] = row
	return true
}

// value of a form if fully determined.
func (s *linSystem) valueOf(f linForm) (*big.Rat, bool) {
	g, c := s.reduce(f, new(big.Rat))
	if len(g) == 0 {
		return c, true
	}
	return nil, false
}

type affineState struct {
	p       *Prog
	c       *Ctx
	sys     *linSystem
	next    int
	unk     map[ssa.Value]int
	resUnk  map[*ssa.Function][]int // per function, per int result
	forms   map[ssa.Value]linForm
	sinks   map[*ssa.Function][]int // element methods: indexes of int params that index the sorter's index
	scope   map[*ssa.Function]bool
	nEq     int
	nConstr int
}

func isIntKind(t types.Type) bool {
	b, ok := t.Underlying().(*types.Basic)
	return ok && b.Info()&types.IsInteger != 0
}

func (a *affineState) fresh() int { a.next++; return a.next }

func (a *affineState) unknownFor(v ssa.Value) linForm {
	u, ok := a.unk[v]
	if !ok {
		u = a.fresh()
		a.unk[v] = u
	}
	return linForm{u: big.NewRat(1, 1)}
}

// form returns the weight of v as a linear form; isConst says v is a literal constant (weight 0, and a
// wildcard where it is compared with or bound to something).
func (a *affineState) form(v ssa.Value) (f linForm, isConst bool) {
	if f, ok := a.forms[v]; ok {
		return f, false
	}
	switch t := v.(type) {
	case *ssa.Const:
		return linForm{}, true
	case *ssa.Convert:
		if isIntKind(t.X.Type()) {
			return a.form(t.X)
		}
	case *ssa.ChangeType:
		if isIntKind(t.X.Type()) {
			return a.form(t.X)
		}
	case *ssa.BinOp:
		x, xc := a.form(t.X)
		y, yc := a.form(t.Y)
		var out linForm
		switch t.Op {
		case token.ADD:
			out = x.addScaled(y, big.NewRat(1, 1))
		case token.SUB:
			out = x.addScaled(y, big.NewRat(-1, 1))
		case token.MUL:
			if k, ok := constInt(t.Y); ok && yc {
				out = x.scale(big.NewRat(k, 1))
			} else if k, ok := constInt(t.X); ok && xc {
				out = y.scale(big.NewRat(k, 1))
			} else {
				// a product of two variables: both must be offsets
				a.constrain(t, "product operand", x, big.NewRat(0, 1))
				a.constrain(t, "product operand", y, big.NewRat(0, 1))
				out = linForm{}
			}
		case token.QUO:
			if k, ok := constInt(t.Y); ok && yc && k != 0 {
				out = x.scale(big.NewRat(1, k))
			}
		case token.SHR:
			if k, ok := constInt(t.Y); ok && yc && k >= 0 && k < 62 {
				out = x.scale(big.NewRat(1, int64(1)<<uint(k)))
			}
		case token.SHL:
			if k, ok := constInt(t.Y); ok && yc && k >= 0 && k < 62 {
				out = x.scale(big.NewRat(int64(1)<<uint(k), 1))
			}
		}
		if out != nil {
			a.forms[v] = out
			return out, false
		}
	}
	f = a.unknownFor(v)
	return f, false
}

func (a *affineState) describe(f linForm) string {
	if w, ok := a.sys.valueOf(f); ok {
		return "weight " + w.RatString()
	}
	return "undetermined weight"
}

// constrain adds form = rhs as one obligation.
func (a *affineState) constrain(at ssa.Instruction, what string, f linForm, rhs *big.Rat) {
	a.nConstr++
	fn := at.Parent()
	key := fname(fn) + "|" + what
	before := a.describe(f)
	if a.sys.addEq(f, rhs) {
		a.c.ok(key, a.p.instrPos(at), "weight "+rhs.RatString()+" is consistent with the other index expressions")
		return
	}
	a.c.bad(key, a.p.instrPos(at), fmt.Sprintf("%s has %s where %s is required: the expression mixes absolute indexes and offsets (it is not translation-equivariant), so it addresses the wrong element for every range that does not start at 0", what, before, rhs.RatString()))
}

func (a *affineState) equate(at ssa.Instruction, what string, f, g linForm) {
	a.nConstr++
	fn := at.Parent()
	key := fname(fn) + "|" + what
	d := f.addScaled(g, big.NewRat(-1, 1))
	bf, bg := a.describe(f), a.describe(g)
	if a.sys.addEq(d, big.NewRat(0, 1)) {
		a.c.okTrivial(key, a.p.instrPos(at), "both sides have the same weight")
		return
	}
	a.c.bad(key, a.p.instrPos(at), fmt.Sprintf("%s: one side has %s, the other %s - an absolute index is combined with an offset; the code is right at most for the range starting at 0", what, bf, bg))
}

func runR120(c *Ctx) {
	p := c.P
	fns := p.FuncsIn("internal/sort")
	if len(fns) == 0 {
		c.undecided("anchor|internal/sort", "-", "package internal/sort not found")
		return
	}
	a := &affineState{p: p, c: c, sys: newLinSystem(), unk: map[ssa.Value]int{}, resUnk: map[*ssa.Function][]int{},
		forms: map[ssa.Value]linForm{}, sinks: map[*ssa.Function][]int{}, scope: map[*ssa.Function]bool{}}
	// element methods: methods whose int parameter is used as the index of an IndexAddr on an index.Int
	for _, fn := range fns {
		if fn.Signature.Recv() == nil {
			continue
		}
		var idx []int
		for i, prm := range fn.Params {
			if !isIntKind(prm.Type()) {
				continue
			}
			used := false
			for _, r := range *prm.Referrers() {
				if ia, ok := r.(*ssa.IndexAddr); ok && ia.Index == prm && isIntIndexType(stripSliceOps(ia.X).Type()) {
					used = true
				}
			}
			if used {
				idx = append(idx, i)
			}
		}
		if len(idx) > 0 {
			a.sinks[fn] = idx
		}
	}
	if len(a.sinks) == 0 {
		c.undecided("anchor|element methods", "-", "no method of internal/sort indexes an index.Int with an int parameter")
		return
	}
	// scope: package-level functions (no receiver) of internal/sort with a body
	var scope []*ssa.Function
	for _, fn := range fns {
		if fn.Signature.Recv() == nil && fn.Blocks != nil && fn.Parent() == nil {
			scope = append(scope, fn)
			a.scope[fn] = true
		}
	}
	// callee-first order (post-order of the static call graph restricted to scope)
	order := []*ssa.Function{}
	seen := map[*ssa.Function]bool{}
	var visit func(fn *ssa.Function)
	visit = func(fn *ssa.Function) {
		if seen[fn] {
			return
		}
		seen[fn] = true
		var callees []*ssa.Function
		eachInstr(fn, func(in ssa.Instruction) {
			if ci, ok := in.(ssa.CallInstruction); ok {
				if cal := staticCallee(ci); cal != nil && a.scope[cal] {
					callees = append(callees, cal)
				}
			}
		})
		for _, cal := range callees {
			visit(cal)
		}
		order = append(order, fn)
	}
	sort.Slice(scope, func(i, j int) bool { return fname(scope[i]) < fname(scope[j]) })
	for _, fn := range scope {
		visit(fn)
	}
	sinkArgs := 0
	for _, fn := range order {
		// results
		a.resultUnknowns(fn)
		// 1. sinks
		eachInstr(fn, func(in ssa.Instruction) {
			ci, ok := in.(ssa.CallInstruction)
			if !ok {
				return
			}
			cal := staticCallee(ci)
			idx, isSink := a.sinks[cal]
			if !isSink {
				return
			}
			args := ci.Common().Args
			for _, i := range idx {
				if i >= len(args) {
					continue
				}
				f, isC := a.form(args[i])
				if isC {
					a.c.okTrivial(fname(fn)+"|"+cal.Name()+" index", p.instrPos(in), "constant index")
					continue
				}
				sinkArgs++
				a.constrain(in, fmt.Sprintf("index passed to %s", cal.Name()), f, big.NewRat(1, 1))
			}
		})
		// 2. phis, comparisons, returns
		eachInstr(fn, func(in ssa.Instruction) {
			switch t := in.(type) {
			case *ssa.Phi:
				if !isIntKind(t.Type()) {
					return
				}
				pf := a.unknownFor(t)
				for _, e := range t.Edges {
					f, isC := a.form(e)
					if isC {
						continue
					}
					a.equate(in, "phi "+phiName(t), pf, f)
				}
			case *ssa.BinOp:
				switch t.Op {
				case token.LSS, token.LEQ, token.GTR, token.GEQ, token.EQL, token.NEQ:
					if !isIntKind(t.X.Type()) {
						return
					}
					x, xc := a.form(t.X)
					y, yc := a.form(t.Y)
					if xc || yc {
						return
					}
					a.equate(in, "comparison "+t.Op.String(), x, y)
				}
			case *ssa.Return:
				ru := a.resUnk[fn]
				k := 0
				for _, r := range t.Results {
					if !isIntKind(r.Type()) {
						continue
					}
					f, isC := a.form(r)
					if !isC && k < len(ru) {
						a.equate(in, fmt.Sprintf("result %d", k), linForm{ru[k]: big.NewRat(1, 1)}, f)
					}
					k++
				}
			}
		})
		// 3. calls of functions in scope: arguments against parameters, results
		eachInstr(fn, func(in ssa.Instruction) {
			ci, ok := in.(ssa.CallInstruction)
			if !ok {
				return
			}
			cal := staticCallee(ci)
			if cal == nil || !a.scope[cal] {
				return
			}
			args := ci.Common().Args
			for i, prm := range cal.Params {
				if i >= len(args) || !isIntKind(prm.Type()) {
					continue
				}
				f, isC := a.form(args[i])
				if isC {
					continue
				}
				a.equate(in, fmt.Sprintf("argument %s of %s", prm.Name(), cal.Name()), a.unknownFor(prm), f)
			}
			// results
			if v, ok := in.(*ssa.Call); ok {
				a.resultUnknowns(cal)
				ru := a.resUnk[cal]
				if tup, ok := v.Type().(*types.Tuple); ok {
					for _, r := range *v.Referrers() {
						if ex, ok := r.(*ssa.Extract); ok && isIntKind(ex.Type()) {
							k := 0
							for j := 0; j < ex.Index && j < tup.Len(); j++ {
								if isIntKind(tup.At(j).Type()) {
									k++
								}
							}
							if k < len(ru) {
								a.forms[ex] = linForm{ru[k]: big.NewRat(1, 1)}
							}
						}
					}
				} else if isIntKind(v.Type()) && len(ru) > 0 {
					a.forms[v] = linForm{ru[0]: big.NewRat(1, 1)}
				}
			}
		})
	}
	if sinkArgs == 0 {
		c.undecided("anchor|sinks", "-", "no call of the sorter's element methods found in the package-level sort functions")
	}
	c.note("element_methods", len(a.sinks))
	c.note("functions", len(order))
	c.note("index_arguments", sinkArgs)
	c.note("equations", a.nConstr)
	// report the inferred kinds of parameters
	var kinds []string
	for _, fn := range order {
		for _, prm := range fn.Params {
			if !isIntKind(prm.Type()) {
				continue
			}
			if u, ok := a.unk[prm]; ok {
				if w, ok := a.sys.valueOf(linForm{u: big.NewRat(1, 1)}); ok {
					kinds = append(kinds, fmt.Sprintf("%s.%s=%s", fn.Name(), prm.Name(), w.RatString()))
				}
			}
		}
	}
	c.note("parameter_weights", kinds)
}

func (a *affineState) resultUnknowns(fn *ssa.Function) {
	if _, ok := a.resUnk[fn]; ok {
		return
	}
	var ru []int
	res := fn.Signature.Results()
	for i := 0; i < res.Len(); i++ {
		if isIntKind(res.At(i).Type()) {
			ru = append(ru, a.fresh())
		}
	}
	a.resUnk[fn] = ru
}

func phiName(t *ssa.Phi) string {
	if t.Comment != "" {
		return t.Comment
	}
	return t.Name()
}
