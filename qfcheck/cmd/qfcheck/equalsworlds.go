package main

import (
	"fmt"
	"go/token"
	"go/types"

	"golang.org/x/tools/go/ssa"
)

// R63: every Column.Equals decides one row pair as the property states, in every world of
// (null/NaN of the receiver's cell, null/NaN of the other cell, payloads equal or not).

func init() {
	register(&Rule{ID: "R63", Name: "EQUALS-WORLDS", Floor: 14,
		Text: "for each column type, Column.Equals is evaluated (finite-domain path evaluation, E5) on a one-row frame pair in every world of (receiver cell null/NaN, other cell null/NaN, payloads equal): the type assertion succeeds, the loop runs once, null predicates and math.IsNaN answer per side, a comparison of the two payloads answers by the world (IEEE semantics for floats; two raw null-coded cells are equal exactly when both are null; payloads of null cells and raw enum codes of two different dictionaries are not comparable). Equals must return true exactly when both cells are null or neither is and the payloads are equal",
		Run:  runR63})
}

// equalsSide: 1 if v derives from the receiver / its index, 2 from the other column / its index, 0 none or both.
func equalsSide(pe *pathExec, fn *ssa.Function, v ssa.Value) int {
	seen := map[ssa.Value]bool{}
	hasA, hasB := false, false
	var walk func(v ssa.Value, d int)
	walk = func(v ssa.Value, d int) {
		if v == nil || seen[v] || d > 14 {
			return
		}
		seen[v] = true
		switch t := v.(type) {
		case *ssa.Parameter:
			if t.Parent() == fn {
				for i, prm := range fn.Params {
					if prm == t {
						if i <= 1 {
							hasA = true
						} else {
							hasB = true
						}
					}
				}
				return
			}
			if pe != nil {
				if bound, ok := pe.vals[t]; ok && bound != v {
					walk(bound, d+1)
				}
			}
			return
		case *ssa.Alloc:
			for _, r := range *t.Referrers() {
				if st, ok := r.(*ssa.Store); ok && st.Addr == ssa.Value(t) {
					walk(st.Val, d+1)
				}
			}
			return
		case *ssa.Phi:
			if isIntegerType(t.Type()) {
				return // loop counters carry no side
			}
		}
		if in, ok := v.(ssa.Instruction); ok {
			var ops []*ssa.Value
			for _, o := range in.Operands(ops) {
				if o != nil && *o != nil {
					walk(*o, d+1)
				}
			}
		}
	}
	walk(v, 0)
	switch {
	case hasA && !hasB:
		return 1
	case hasB && !hasA:
		return 2
	}
	return 0
}

func isIntegerType(t types.Type) bool {
	b, ok := t.Underlying().(*types.Basic)
	return ok && b.Info()&types.IsInteger != 0
}

// hasNullMethod: the type codes null in-band (enumVal.isNull()).
func hasNullMethod(t types.Type) bool {
	n, ok := t.(*types.Named)
	if !ok {
		return false
	}
	for i := 0; i < n.NumMethods(); i++ {
		if m := n.Method(i).Name(); m == "isNull" || m == "IsNull" {
			return true
		}
		// under any other name: recognised by its body
		if curProg != nil && curProg.SSA != nil {
			if mf := curProg.SSA.FuncValue(n.Method(i)); mf != nil && isNullPredFn(mf) {
				return true
			}
		}
	}
	return false
}

func runR63(c *Ctx) {
	p := c.P
	for _, cp := range columnPkgs {
		fn := p.Func(cp, "Column.Equals")
		if fn == nil || len(fn.Params) != 4 {
			c.undecided(cp+"|Equals", "-", "method Column.Equals(index, other, otherIndex) not found")
			continue
		}
		nullable := nullablePkg[cp]
		for nv := 0; nv < 4; nv++ {
			aNull, bNull := nv&1 != 0, nv&2 != 0
			if !nullable && (aNull || bNull) {
				continue
			}
			for _, eq := range []bool{true, false} {
				if (aNull || bNull) && !eq {
					continue // payload relation is meaningless when a cell is null: one world per null pattern
				}
				key := fmt.Sprintf("%s|Equals world aNull=%v bNull=%v payloadsEqual=%v", cp, aNull, bNull, eq)
				anyNull := aNull || bNull
				pe := &pathExec{fn: fn}
				pe.lenOf = func(call *ssa.Call) (int64, bool) { return 1, true }
				why := ""
				var atomRef func(x ssa.Value) (bool, bool)
				atom := func(x ssa.Value) (bool, bool) {
					switch t := x.(type) {
					case *ssa.Extract:
						if ta, ok := t.Tuple.(*ssa.TypeAssert); ok && ta.CommaOk && t.Index == 1 {
							return true, true
						}
						if t.Index == 1 && isNullPredicate(t) {
							switch equalsSide(pe, fn, t.Tuple) {
							case 1:
								return aNull, true
							case 2:
								return bNull, true
							}
						}
					case *ssa.Call:
						if isNullPredicate(t) && len(t.Call.Args) > 0 {
							switch equalsSide(pe, fn, t.Call.Args[0]) {
							case 1:
								return aNull, true
							case 2:
								return bNull, true
							}
						}
					case *ssa.BinOp:
						if isIntegerType(t.X.Type()) && !hasNullMethod(t.X.Type()) {
							if a, ok1 := pe.intOf(t.X, 0); ok1 {
								if b, ok2 := pe.intOf(t.Y, 0); ok2 {
									switch t.Op {
									case token.LSS:
										return a < b, true
									case token.LEQ:
										return a <= b, true
									case token.GTR:
										return a > b, true
									case token.GEQ:
										return a >= b, true
									case token.EQL:
										return a == b, true
									case token.NEQ:
										return a != b, true
									}
								}
							}
						}
						if t.Op != token.EQL && t.Op != token.NEQ {
							return false, false
						}
						if b, ok := t.X.Type().Underlying().(*types.Basic); ok && b.Kind() == types.Bool && nullable {
							// two null flags compared with each other (`sNull != osNull`)
							xv, k1 := pe.evalBool(t.X, atomRef)
							yv, k2 := pe.evalBool(t.Y, atomRef)
							if k1 && k2 {
								return (xv == yv) == (t.Op == token.EQL), true
							}
							return false, false
						}
						sx, sy := equalsSide(pe, fn, t.X), equalsSide(pe, fn, t.Y)
						if !(sx == 1 && sy == 2 || sx == 2 && sy == 1) {
							return false, false
						}
						isEq := t.Op == token.EQL
						switch {
						case isFloatType(t.X.Type()):
							if anyNull {
								return !isEq, true // IEEE: NaN differs from everything
							}
							return isEq == eq, true
						case hasNullMethod(t.X.Type()):
							if anyNull {
								return isEq == (aNull && bNull), true
							}
							why = "raw null-coded codes of two columns are compared although neither is null; codes of different dictionaries do not identify values"
							return false, false
						default:
							if anyNull {
								why = "the payload of a null cell is compared"
								return false, false
							}
							return isEq == eq, true
						}
					}
					return false, false
				}
				atomRef = atom
				pe.oracle = func(pe *pathExec, cond ssa.Value) (bool, bool) { return pe.evalBool(cond, atom) }
				pe.inline = func(callee *ssa.Function) bool {
					if callee.Pkg != fn.Pkg || callee.Name() == "isNull" || callee.Name() == "IsNull" || isNullPredFn(callee) {
						return false
					}
					// accessors returning (value, isNull) are interpreted by the oracle
					if r := callee.Signature.Results(); r.Len() == 2 {
						if b, ok := r.At(1).Type().Underlying().(*types.Basic); ok && b.Kind() == types.Bool {
							return false
						}
					}
					return true
				}
				end, whyNot := pe.run()
				ret, ok := end.(*ssa.Return)
				if !ok {
					if why != "" {
						whyNot = why
					}
					c.undecided(key, p.pos(fn.Pos()), "cannot evaluate: "+whyNot)
					continue
				}
				rv := pe.resolve(ret.Results[0])
				want := (aNull && bNull) || (!anyNull && eq)
				switch {
				case isConstBool(rv, want):
					c.ok(key, p.instrPos(ret), fmt.Sprintf("returns %v", want))
				case isConstBool(rv, !want):
					c.bad(key, p.instrPos(ret), fmt.Sprintf("returns %v, but in this world the cells are %s", !want, map[bool]string{true: "equal", false: "different"}[want]))
				default:
					c.undecided(key, p.instrPos(ret), "the returned value is not a constant on this path: "+rv.String())
				}
			}
		}
	}
}
