package main

import (
	"fmt"
	"go/constant"
	"go/token"
	"go/types"
	"strings"

	"golang.org/x/tools/go/ssa"
)

func init() {
	register(&Rule{ID: "R10", Name: "CMP-WORLDS", Floor: 40,
		Text: "(a) every Column.Comparable(reverse, equalNull, nullLast) is evaluated on all 8 valuations: the order table it builds equals the one the property states (natural order, null smallest; nullLast swaps the null results; reverse swaps lt/gt and the null results; equalNull makes null-vs-null Equal, otherwise NotEqual); (b) every Comparable.Compare(i, j) is evaluated in all worlds {cell(i) <,=,> cell(j)} x {i null} x {j null}: it returns the table entry matching the actual relation and nullness; (c) Sorter.Less over two keys is evaluated on all 16 pairs of compare results: the first LessThan/GreaterThan decides, Equal and NotEqual fall through, all ties give false",
		Run:  runR10})
}

var cmpNames = map[int64]string{0: "LessThan", 1: "GreaterThan", 2: "Equal", 3: "NotEqual"}

func constName(v ssa.Value) string {
	c, ok := v.(*ssa.Const)
	if !ok || c.Value == nil || c.Value.Kind() != constant.Int {
		return "?" + v.Name()
	}
	i, _ := constant.Int64Val(c.Value)
	if n, ok := cmpNames[i]; ok {
		return n
	}
	return fmt.Sprint(i)
}

func runR10(c *Ctx) {
	p := c.P
	for _, cp := range columnPkgs {
		r10Constructor(c, p, cp)
		r10Compare(c, p, cp)
	}
	r10Less(c, p)
}

func r10Constructor(c *Ctx, p *Prog, cp string) {
	fn := p.Func(cp, "Column.Comparable")
	if fn == nil || len(fn.Params) != 4 {
		c.undecided(cp+"|Comparable constructor", "-", "method Column.Comparable(reverse, equalNull, nullLast) not found")
		return
	}
	for v := 0; v < 8; v++ {
		reverse, equalNull, nullLast := v&1 != 0, v&2 != 0, v&4 != 0
		val := map[*ssa.Parameter]bool{fn.Params[1]: reverse, fn.Params[2]: equalNull, fn.Params[3]: nullLast}
		key := fmt.Sprintf("%s|Comparable(reverse=%v,equalNull=%v,nullLast=%v)", cp, reverse, equalNull, nullLast)
		pe := &pathExec{fn: fn}
		pe.oracle = func(pe *pathExec, cond ssa.Value) (bool, bool) {
			return pe.evalBool(cond, func(x ssa.Value) (bool, bool) {
				if pr, ok := x.(*ssa.Parameter); ok {
					b, ok := val[pr]
					return b, ok
				}
				return false, false
			})
		}
		end, why := pe.run()
		ret, ok := end.(*ssa.Return)
		if !ok {
			c.undecided(key, p.pos(fn.Pos()), "cannot evaluate: "+why)
			continue
		}
		// returned struct: MakeInterface(load local)
		var cell ssa.Value
		rv := ret.Results[0]
		if mi, ok := rv.(*ssa.MakeInterface); ok {
			rv = mi.X
		}
		if ld, ok := rv.(*ssa.UnOp); ok && ld.Op == token.MUL {
			cell = ld.X
		}
		ck, okK := cellKey(cell)
		if cell == nil || !okK {
			c.undecided(key, p.instrPos(ret), "result is not a locally built struct")
			continue
		}
		st, _ := deref(cell.Type()).Underlying().(*types.Struct)
		got := map[string]string{}
		for i := 0; st != nil && i < st.NumFields(); i++ {
			if v, ok := pe.mem[fmt.Sprintf("%s.%d", ck, i)]; ok {
				got[st.Field(i).Name()] = constName(v)
			}
		}
		lt, gt, nlt, ngt := "LessThan", "GreaterThan", "LessThan", "GreaterThan"
		if nullLast {
			nlt, ngt = ngt, nlt
		}
		if reverse {
			lt, gt = gt, lt
			nlt, ngt = ngt, nlt
		}
		en := "NotEqual"
		if equalNull {
			en = "Equal"
		}
		want := map[string]string{"ltValue": lt, "gtValue": gt, "nullLtValue": nlt, "nullGtValue": ngt, "equalNullValue": en}
		var diffs []string
		for k, w := range want {
			if got[k] != w {
				diffs = append(diffs, fmt.Sprintf("%s=%s (want %s)", k, got[k], w))
			}
		}
		if len(diffs) > 0 {
			sortStrings(diffs)
			c.bad(key, p.pos(fn.Pos()), "order table differs from the stated order: "+strings.Join(diffs, ", "))
		} else {
			c.ok(key, p.pos(fn.Pos()), fmt.Sprintf("lt=%s gt=%s nullLt=%s nullGt=%s equalNull=%s", lt, gt, nlt, ngt, en))
		}
	}
}

// whichCell: 1 if v derives from the cell at parameter i, 2 for j, 0 unknown / both.
func whichCellPE(pe *pathExec, fn *ssa.Function, v ssa.Value) int {
	pi, pj := fn.Params[1], fn.Params[2]
	seen := map[ssa.Value]bool{}
	hasI, hasJ := false, false
	var walk func(v ssa.Value, d int)
	walk = func(v ssa.Value, d int) {
		if v == nil || seen[v] || d > 10 {
			return
		}
		seen[v] = true
		if v == ssa.Value(pi) {
			hasI = true
			return
		}
		if v == ssa.Value(pj) {
			hasJ = true
			return
		}
		if pr, ok := v.(*ssa.Parameter); ok && pe != nil {
			if bound, ok := pe.vals[pr]; ok && bound != v {
				walk(bound, d+1)
			}
			return
		}
		if in, ok := v.(ssa.Instruction); ok {
			var ops []*ssa.Value
			for _, o := range in.Operands(ops) {
				if o != nil && *o != nil {
					walk(*o, d+1)
				}
			}
		}
	}
	walk(v, 0)
	switch {
	case hasI && !hasJ:
		return 1
	case hasJ && !hasI:
		return 2
	}
	return 0
}

func whichCell(fn *ssa.Function, v ssa.Value) int { return whichCellPE(curPE, fn, v) }

// curPE is the executor of the world being evaluated (whichCell follows parameters of inlined helpers through it).
var curPE *pathExec

func r10Compare(c *Ctx, p *Prog, cp string) {
	fn := p.Func(cp, "Comparable.Compare")
	if fn == nil || len(fn.Params) != 3 {
		c.undecided(cp+"|Compare", "-", "method Comparable.Compare(i, j) not found")
		return
	}
	nullable := nullablePkg[cp]
	rels := []string{"<", "=", ">"}
	for _, rel := range rels {
		for nv := 0; nv < 4; nv++ {
			iNull, jNull := nv&1 != 0, nv&2 != 0
			if !nullable && (iNull || jNull) {
				continue
			}
			if (iNull || jNull) && rel != "=" {
				continue // the value relation is meaningless when a cell is null: one world per null pattern
			}
			key := fmt.Sprintf("%s|Compare world cell(i)%scell(j) iNull=%v jNull=%v", cp, rel, iNull, jNull)
			anyNull := iNull || jNull
			diffCmp := ""
			pe := &pathExec{fn: fn}
			relTruth := func(op token.Token, swapped bool) bool {
				r := rel
				if swapped {
					r = map[string]string{"<": ">", ">": "<", "=": "="}[rel]
				}
				switch op {
				case token.LSS:
					return r == "<"
				case token.GTR:
					return r == ">"
				case token.LEQ:
					return r != ">"
				case token.GEQ:
					return r != "<"
				case token.EQL:
					return r == "="
				case token.NEQ:
					return r != "="
				}
				return false
			}
			atom := func(x ssa.Value) (bool, bool) {
				switch t := x.(type) {
				case *ssa.Extract:
					// second result of bytesAt/stringAt: null flag of that cell
					if t.Index == 1 && isNullPredicate(t) {
						switch whichCell(fn, t.Tuple) {
						case 1:
							return iNull, true
						case 2:
							return jNull, true
						}
					}
				case *ssa.Call:
					if isNullPredicate(t) {
						var arg ssa.Value
						if len(t.Call.Args) > 0 {
							arg = t.Call.Args[0]
						}
						switch whichCell(fn, arg) {
						case 1:
							return iNull, true
						case 2:
							return jNull, true
						}
					}
				case *ssa.BinOp:
					wx, wy := whichCell(fn, t.X), whichCell(fn, t.Y)
					// the sign of a difference of two cells is not their order (it overflows)
					for _, o := range []ssa.Value{t.X, t.Y} {
						if d, ok := pe.resolve(o).(*ssa.BinOp); ok && d.Op == token.SUB {
							if a, b := whichCell(fn, d.X), whichCell(fn, d.Y); a != 0 && b != 0 && a != b && !isFloatType(d.Type()) {
								diffCmp = "the order of two cells is decided by the sign of their difference (" + d.String() + "), which overflows for keys far apart (MaxInt64 vs -1)"
							}
						}
					}
					// result of bytes.Compare(x, y) against -1 / 1 / 0
					if call, ok := pe.resolve(t.X).(*ssa.Call); ok && isFuncNamed(calleeObj(call), "bytes", "", "Compare") {
						if k, isK := constInt(t.Y); isK && t.Op == token.EQL {
							a0, a1 := whichCell(fn, call.Call.Args[0]), whichCell(fn, call.Call.Args[1])
							if a0 == 1 && a1 == 2 {
								return (k == -1 && rel == "<") || (k == 1 && rel == ">") || (k == 0 && rel == "="), true
							}
							if a0 == 2 && a1 == 1 {
								return (k == -1 && rel == ">") || (k == 1 && rel == "<") || (k == 0 && rel == "="), true
							}
						}
						return false, false
					}
					if wx == 1 && wy == 2 || wx == 2 && wy == 1 {
						if anyNull && isFloatType(t.X.Type()) {
							return t.Op == token.NEQ, true // IEEE comparisons with NaN
						}
						if anyNull {
							return false, false // comparing a null cell's payload: must not be reached
						}
						return relTruth(t.Op, wx == 2), true
					}
				default:
					// a boolean cell used directly as a condition (bcolumn: `if x`)
					if b, ok := x.Type().Underlying().(*types.Basic); ok && b.Kind() == types.Bool && !anyNull {
						switch whichCell(fn, x) {
						case 1: // x true with x != y  <=> x > y ; with x == y unknown
							if rel == "=" {
								return false, false
							}
							return rel == ">", true
						case 2:
							if rel == "=" {
								return false, false
							}
							return rel == "<", true
						}
					}
				}
				return false, false
			}
			pe.oracle = func(pe *pathExec, cond ssa.Value) (bool, bool) { return pe.evalBool(cond, atom) }
			pe.inline = func(callee *ssa.Function) bool {
				// helpers that work on values already read (compareNull(xNull, yNull), compareBytes(x, y)); never the
				// cell accessors and null predicates the oracle interprets itself
				if callee.Pkg != fn.Pkg || callee.Name() == "isNull" || callee.Name() == "IsNull" || isNullPredFn(callee) {
					return false
				}
				for i, prm := range callee.Params {
					if isUint32(prm.Type()) {
						return false
					}
					if i == 0 && callee.Signature.Recv() != nil {
						if n, ok := deref(prm.Type()).(*types.Named); ok && n.Obj().Name() != "Comparable" {
							return false
						}
					}
				}
				return true
			}
			curPE = pe
			end, why := pe.run()
			curPE = nil
			ret, ok := end.(*ssa.Return)
			if !ok {
				if diffCmp != "" {
					c.bad(key, p.pos(fn.Pos()), diffCmp)
				} else {
					c.undecided(key, p.pos(fn.Pos()), "cannot evaluate: "+why)
				}
				continue
			}
			rv := pe.resolve(ret.Results[0])
			got := fieldNameOfLoad(rv)
			if got == "" {
				got = constName(rv)
			}
			want := "Equal"
			switch {
			case iNull && jNull:
				want = "equalNullValue"
			case iNull:
				want = "nullLtValue"
			case jNull:
				want = "nullGtValue"
			case rel == "<":
				want = "ltValue"
			case rel == ">":
				want = "gtValue"
			}
			if got == want {
				c.ok(key, p.instrPos(ret), "returns "+got)
			} else {
				c.bad(key, p.instrPos(ret), fmt.Sprintf("returns %s, but in this world the stated order requires %s", got, want))
			}
		}
	}
}

func r10Less(c *Ctx, p *Prog) {
	fn := p.Func("internal/sort", "Sorter.Less")
	if fn == nil {
		c.undecided("internal/sort|Less", "-", "Sorter.Less not found")
		return
	}
	names := []string{"LessThan", "GreaterThan", "Equal", "NotEqual"}
	for a := 0; a < 4; a++ {
		for b := 0; b < 4; b++ {
			seq := []int64{int64(a), int64(b)}
			key := fmt.Sprintf("internal/sort|Less keys=(%s,%s)", names[a], names[b])
			nCmp := 0
			execCount := map[ssa.Instruction]int{}
			pe := &pathExec{fn: fn}
			pe.onInstr = func(pe *pathExec, in ssa.Instruction) {
				if call, ok := in.(*ssa.Call); ok && call.Call.IsInvoke() && call.Call.Method.Name() == "Compare" {
					nCmp++
					execCount[in] = nCmp
				}
			}
			pe.lenOf = func(*ssa.Call) (int64, bool) { return 2, true } // two sort keys
			// phi resolution stores resolved edges; an edge that is `k+1` must be folded eagerly
			pe.oracle = func(pe *pathExec, cond ssa.Value) (bool, bool) {
				return pe.evalBool(cond, func(x ssa.Value) (bool, bool) {
					bo, ok := x.(*ssa.BinOp)
					if !ok {
						return false, false
					}
					if call, ok := bo.X.(*ssa.Call); ok && call.Call.IsInvoke() && call.Call.Method.Name() == "Compare" {
						k, isK := constInt(bo.Y)
						n := execCount[call]
						if isK && n >= 1 && n <= len(seq) && bo.Op == token.EQL {
							return seq[n-1] == k, true
						}
						if isK && n >= 1 && n <= len(seq) && bo.Op == token.NEQ {
							return seq[n-1] != k, true
						}
						return false, false
					}
					if bo.Op == token.LSS {
						x, ok1 := pe.intOf(bo.X, 0)
						y, ok2 := pe.intOf(bo.Y, 0)
						return x < y, ok1 && ok2
					}
					return false, false
				})
			}
			end, why := pe.run()
			ret, ok := end.(*ssa.Return)
			if !ok {
				c.undecided(key, p.pos(fn.Pos()), "cannot evaluate: "+why)
				continue
			}
			got, known := false, false
			rv := pe.resolve(ret.Results[0])
			if isConstBool(rv, true) {
				got, known = true, true
			} else if isConstBool(rv, false) {
				got, known = false, true
			}
			want := false
			for _, r := range seq {
				if r == 0 {
					want = true
					break
				}
				if r == 1 {
					want = false
					break
				}
			}
			switch {
			case !known:
				c.undecided(key, p.instrPos(ret), "result is not a constant on this path")
			case got == want:
				c.ok(key, p.instrPos(ret), fmt.Sprintf("Less = %v", got))
			default:
				c.bad(key, p.instrPos(ret), fmt.Sprintf("Less = %v but the lexicographic comparison of the keys requires %v", got, want))
			}
		}
	}
}
