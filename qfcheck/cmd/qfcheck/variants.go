package main

// runVariants is filled in by variants_run.go (thorough tier); see DESIGN.md 2.5.
func runVariants(spec *PropSpec, repo, verif string) interface{} {
	return runVariantCatalogue(spec, repo, verif)
}
