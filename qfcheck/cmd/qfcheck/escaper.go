package main

import (
	"fmt"
	"go/token"
	"go/types"
	"strings"

	"golang.org/x/tools/go/ssa"
)

func init() {
	register(&Rule{ID: "R28", Name: "ESC-TABLE", Floor: 250,
		Text: "one iteration of AppendQuotedString's loop is evaluated for each of the 256 values of the current byte c: for c < 0x80 the byte takes the `no escaping` path exactly when it is in 0x20..0x7F minus the quote and the backslash, and otherwise the bytes appended (besides the flush of the pending unescaped run) are exactly the JSON escape of c (\\t \\r \\n \\\\ \\\" or \\u00XX with the two hex digits of c); for c >= 0x80 the byte is never treated as a single-width character (the rune is decoded); what happens after decoding (replacement escape, separator escapes, raw copy) is decided per character class by R100",
		Run:  runR28})
}

func runR28(c *Ctx) {
	p := c.P
	fn := p.anchorEscaper()
	if fn == nil {
		c.undecided("internal/strings.AppendQuotedString", "-", "not found")
		return
	}
	strP := fn.Params[1]
	// the byte load c := str[i]
	var cLoad *ssa.Index
	eachInstr(fn, func(in ssa.Instruction) {
		if lk, ok := in.(*ssa.Index); ok && lk.X == ssa.Value(strP) && cLoad == nil {
			cLoad = lk
		}
	})
	if cLoad == nil {
		c.undecided(fname(fn)+"|byte load", p.pos(fn.Pos()), "cannot find c := str[i]")
		return
	}
	var loop *loopInfo
	for _, li := range loopsOf(fn) {
		if inLoop(li, cLoad.Block()) {
			l := li
			loop = &l
		}
	}
	if loop == nil {
		c.undecided(fname(fn)+"|loop", p.pos(fn.Pos()), "the byte load is not in a loop")
		return
	}
	for k := 0; k < 256; k++ {
		key := fmt.Sprintf("%s|byte 0x%02x", fname(fn), k)
		decoded := false
		pe := &pathExec{fn: fn, start: cLoad.Block()}
		pe.stopAt = func(b *ssa.BasicBlock) bool { return b == loop.header }
		pe.inline = func(callee *ssa.Function) bool {
			// helpers of the escaper that receive the current byte (e.g. an extracted `append the escape of c`)
			if callee.Pkg != fn.Pkg {
				return false
			}
			for _, prm := range callee.Params {
				if b, ok := prm.Type().Underlying().(*types.Basic); ok && b.Kind() == types.Uint8 {
					return true
				}
			}
			return false
		}
		pe.onInstr = func(pe *pathExec, in ssa.Instruction) {
			if call, ok := in.(*ssa.Call); ok {
				if o := calleeObj(call); o != nil && o.Pkg() != nil && o.Pkg().Path() == "unicode/utf8" {
					decoded = true
				}
			}
		}
		var cval func(v ssa.Value, d int) (int64, bool)
		cval = func(v ssa.Value, d int) (int64, bool) {
			if d > 10 {
				return 0, false
			}
			v = pe.resolve(v)
			if v == ssa.Value(cLoad) {
				return int64(k), true
			}
			if x, ok := constInt(v); ok {
				return x, true
			}
			switch t := v.(type) {
			case *ssa.Convert:
				return cval(t.X, d+1)
			case *ssa.BinOp:
				x, ok1 := cval(t.X, d+1)
				y, ok2 := cval(t.Y, d+1)
				if ok1 && ok2 {
					switch t.Op {
					case token.SHR:
						return x >> uint(y), true
					case token.AND:
						return x & y, true
					}
				}
			}
			return 0, false
		}
		pe.oracle = func(pe *pathExec, cond ssa.Value) (bool, bool) {
			return pe.evalBool(cond, func(x ssa.Value) (bool, bool) {
				b, ok := x.(*ssa.BinOp)
				if !ok {
					return false, false
				}
				l, ok1 := cval(b.X, 0)
				r, ok2 := cval(b.Y, 0)
				if !ok1 || !ok2 {
					return false, false
				}
				switch b.Op {
				case token.EQL:
					return l == r, true
				case token.NEQ:
					return l != r, true
				case token.LSS:
					return l < r, true
				case token.LEQ:
					return l <= r, true
				case token.GTR:
					return l > r, true
				case token.GEQ:
					return l >= r, true
				}
				return false, false
			})
		}
		end, why := pe.run()
		if k >= 0x80 {
			// must reach the rune decoder (the executor stops at the first undecidable branch after it)
			if decoded {
				c.ok(key, p.instrPos(cLoad), "not single-width: the rune is decoded")
			} else {
				c.bad(key, p.instrPos(cLoad), "a byte >= 0x80 is handled as a single-width character without decoding the rune: multi-byte / invalid UTF-8 is copied or escaped wrongly")
			}
			continue
		}
		if end != nil || pe.stopped == nil {
			c.undecided(key, p.instrPos(cLoad), "cannot evaluate the iteration: "+why)
			continue
		}
		// bytes appended on the path, except the flush str[p:i]
		out := ""
		okEval := true
		for _, call := range pe.calls {
			if builtinName(call) != "append" {
				continue
			}
			a := call.Call.Args[1]
			if s, ok := constString(a); ok {
				out += s
				continue
			}
			if sl, ok := a.(*ssa.Slice); ok {
				if sl.X == ssa.Value(strP) {
					continue // flush of the pending unescaped run
				}
				// variadic single byte
				if al, ok := sl.X.(*ssa.Alloc); ok {
					for _, r := range *al.Referrers() {
						if ia, ok := r.(*ssa.IndexAddr); ok {
							for _, r2 := range *ia.Referrers() {
								if st, ok := r2.(*ssa.Store); ok {
									if b, ok := byteValue(st.Val, cval); ok {
										out += string(rune(b))
									} else {
										okEval = false
									}
								}
							}
						}
					}
					continue
				}
			}
			okEval = false
		}
		if !okEval {
			c.undecided(key, p.instrPos(cLoad), "an appended payload cannot be evaluated")
			continue
		}
		want := ""
		switch {
		case k == '\t':
			want = `\t`
		case k == '\r':
			want = `\r`
		case k == '\n':
			want = `\n`
		case k == '\\':
			want = `\\`
		case k == '"':
			want = `\"`
		case k < 0x20:
			want = fmt.Sprintf(`\u00%02x`, k)
		}
		// 0x7f (DEL) is allowed unescaped by JSON
		if out == want {
			if want == "" {
				c.ok(key, p.instrPos(cLoad), "copied unescaped (allowed by JSON)")
			} else {
				c.ok(key, p.instrPos(cLoad), "escaped as "+want)
			}
		} else {
			c.bad(key, p.instrPos(cLoad), fmt.Sprintf("byte 0x%02x is written as %q but valid JSON requires %q", k, out, want))
		}
	}
	// the multi-byte escapes (invalid byte, U+2028/2029, genuine U+FFFD, other runes) are decided by R100's classes
}

func onlyViaSeparatorTests(b *ssa.BasicBlock) bool {
	if len(b.Preds) == 0 {
		return false
	}
	for _, pd := range b.Preds {
		iff, ok := pd.Instrs[len(pd.Instrs)-1].(*ssa.If)
		if !ok || pd.Succs[0] != b {
			return false
		}
		cmp, ok := iff.Cond.(*ssa.BinOp)
		if !ok || cmp.Op != token.EQL {
			return false
		}
		k, isK := constInt(cmp.Y)
		if !isK || k != 0x2028 && k != 0x2029 {
			return false
		}
	}
	return true
}

// byteValue evaluates a byte expression such as chars[c>>4] for the current c.
func byteValue(v ssa.Value, cval func(ssa.Value, int) (int64, bool)) (int64, bool) {
	switch t := v.(type) {
	case *ssa.Index:
		if s, ok := constString(t.X); ok {
			if i, ok := cval(t.Index, 0); ok && i >= 0 && int(i) < len(s) {
				return int64(s[i]), true
			}
		}
	case *ssa.Convert:
		return byteValue(t.X, cval)
	case *ssa.Const:
		return constInt(t)
	}
	if _, ok := v.Type().Underlying().(*types.Basic); ok {
		return cval(v, 0)
	}
	return 0, false
}

// ---- R100: the escaper's run bookkeeping, as a loop invariant ----

func init() {
	register(&Rule{ID: "R100", Name: "ESC-INVARIANT", Floor: 11,
		Text: "AppendQuotedString keeps the invariant `buf = quote + escaped(str[:p]) and str[p:i] is a pending run of bytes that need no escaping`: (prologue) on entry to the loop the opening quote has been appended and i = p = 0; (step) one iteration is evaluated from the loop header with i, p and buf symbolic, for nine classes of the character at i (plain ASCII, newline, quote, control byte, invalid byte, U+2028, U+2029, other multi-byte rune, a genuine U+FFFD): a character that needs no escape appends nothing, advances i by the character's width and leaves p alone; a character that needs one appends exactly the pending run str[p:i] followed by its escape (\\n, \\\", \\u0001, \\ufffd, \\u2028, \\u2029), advances i by the width and sets p to the new i (U+2028 and U+2029 may take either form: both denote the same string); (epilogue) after the loop str[p:] and the closing quote are appended and that buffer is returned. Every string is covered by induction over its characters; R28 decides the escape text of all 256 single bytes",
		Run:  runR100})
}

func runR100(c *Ctx) {
	p := c.P
	fn := p.anchorEscaper()
	if fn == nil {
		c.undecided("internal/strings.AppendQuotedString", "-", "not found")
		return
	}
	fnm := fname(fn)
	strP := fn.Params[1]
	var cLoad *ssa.Index
	eachInstr(fn, func(in ssa.Instruction) {
		if lk, ok := in.(*ssa.Index); ok && lk.X == ssa.Value(strP) && cLoad == nil {
			cLoad = lk
		}
	})
	var loop *loopInfo
	if cLoad != nil {
		for _, li := range loopsOf(fn) {
			if inLoop(li, cLoad.Block()) {
				l := li
				loop = &l
			}
		}
	}
	if loop == nil {
		c.undecided(fnm+"|loop", p.pos(fn.Pos()), "cannot find the loop over the string's bytes")
		return
	}
	hdr := loop.header
	// the three loop-carried values
	var iPhi, pPhi, bufPhi *ssa.Phi
	for _, in := range hdr.Instrs {
		phi, ok := in.(*ssa.Phi)
		if !ok {
			break
		}
		switch {
		case ssa.Value(phi) == cLoad.Index:
			iPhi = phi
		case isIntegerType(phi.Type()):
			pPhi = phi
		default:
			bufPhi = phi
		}
	}
	if iPhi == nil || pPhi == nil || bufPhi == nil {
		c.undecided(fnm+"|loop state", p.pos(fn.Pos()), "the loop does not carry exactly a cursor, a run start and the buffer")
		return
	}
	type class struct {
		name  string
		c     int64
		r     int64
		width int64
		esc   string
	}
	classes := []class{
		{"plain ASCII", 'a', 'a', 1, ""}, {"newline", '\n', '\n', 1, `\n`}, {"quote", '"', '"', 1, `\"`}, {"control byte 0x01", 1, 1, 1, `\u0001`},
		{"invalid byte", 0xFF, 0xFFFD, 1, `\ufffd`}, {"U+2028", 0xE2, 0x2028, 3, `\u2028`}, {"U+2029", 0xE2, 0x2029, 3, `\u2029`},
		{"two-byte rune", 0xC3, 0xE9, 2, ""}, {"genuine U+FFFD", 0xEF, 0xFFFD, 3, ""},
	}
	// describes what an append call appended: "RAW(p,i)", "RAW(p,end)", or literal bytes
	payload := func(pe *pathExec, call *ssa.Call, cval func(ssa.Value, int) (int64, bool)) (string, bool) {
		a := call.Call.Args[1]
		if s, ok := constString(a); ok {
			return s, true
		}
		if sl, ok := a.(*ssa.Slice); ok {
			if sl.X == ssa.Value(strP) {
				lo, hi := "0", "end"
				if sl.Low != nil {
					switch pe.resolve(sl.Low) {
					case ssa.Value(pPhi):
						lo = "p"
					case ssa.Value(iPhi):
						lo = "i"
					default:
						lo = "?"
					}
				}
				if sl.High != nil {
					switch pe.resolve(sl.High) {
					case ssa.Value(iPhi):
						hi = "i"
					case ssa.Value(pPhi):
						hi = "p"
					default:
						hi = "?"
					}
				}
				return "RAW(" + lo + "," + hi + ")", true
			}
			if al, ok := sl.X.(*ssa.Alloc); ok {
				out := ""
				for _, r := range *al.Referrers() {
					if ia, ok := r.(*ssa.IndexAddr); ok {
						for _, r2 := range *ia.Referrers() {
							if st, ok := r2.(*ssa.Store); ok {
								b, ok := byteValue(st.Val, cval)
								if !ok {
									return "", false
								}
								out += string(rune(b))
							}
						}
					}
				}
				return out, true
			}
		}
		return "", false
	}
	for _, cl := range classes {
		cl := cl
		key := fmt.Sprintf("%s|step for %s", fnm, cl.name)
		pe := &pathExec{fn: fn, start: hdr}
		pe.stopAt = func(b *ssa.BasicBlock) bool { return b == hdr }
		pe.inline = func(callee *ssa.Function) bool {
			// helpers of the escaper that receive the current byte (an extracted `append the escape of c`)
			if callee.Pkg != fn.Pkg {
				return false
			}
			for _, prm := range callee.Params {
				if b, ok := prm.Type().Underlying().(*types.Basic); ok && (b.Kind() == types.Uint8 || b.Kind() == types.Int32) {
					return true
				}
			}
			return false
		}
		var cval func(v ssa.Value, d int) (int64, bool)
		cval = func(v ssa.Value, d int) (int64, bool) {
			if d > 10 {
				return 0, false
			}
			v = pe.resolve(v)
			if v == ssa.Value(cLoad) {
				return cl.c, true
			}
			if x, ok := constInt(v); ok {
				return x, true
			}
			switch t := v.(type) {
			case *ssa.Extract:
				if call, ok := t.Tuple.(*ssa.Call); ok {
					if o := calleeObj(call); o != nil && o.Pkg() != nil && o.Pkg().Path() == "unicode/utf8" {
						if t.Index == 0 {
							return cl.r, true
						}
						return cl.width, true
					}
				}
			case *ssa.Convert:
				return cval(t.X, d+1)
			case *ssa.BinOp:
				x, ok1 := cval(t.X, d+1)
				y, ok2 := cval(t.Y, d+1)
				if ok1 && ok2 {
					switch t.Op {
					case token.SHR:
						return x >> uint(y), true
					case token.AND:
						return x & y, true
					}
				}
			}
			return 0, false
		}
		first := true
		pe.oracle = func(pe *pathExec, cond ssa.Value) (bool, bool) {
			return pe.evalBool(cond, func(x ssa.Value) (bool, bool) {
				b, ok := x.(*ssa.BinOp)
				if !ok {
					return false, false
				}
				// the loop condition i < len(str): there is a character at i
				if b.X == ssa.Value(iPhi) && b.Op == token.LSS && first {
					first = false
					return true, true
				}
				l, ok1 := cval(b.X, 0)
				r, ok2 := cval(b.Y, 0)
				if !ok1 || !ok2 {
					return false, false
				}
				switch b.Op {
				case token.EQL:
					return l == r, true
				case token.NEQ:
					return l != r, true
				case token.LSS:
					return l < r, true
				case token.LEQ:
					return l <= r, true
				case token.GTR:
					return l > r, true
				case token.GEQ:
					return l >= r, true
				}
				return false, false
			})
		}
		end, why := pe.run()
		if end != nil || pe.stopped == nil {
			c.undecided(key, p.pos(fn.Pos()), "cannot evaluate the iteration: "+why)
			continue
		}
		last := pe.path[len(pe.path)-1]
		for k := len(pe.path) - 1; k >= 0; k-- {
			if pe.path[k].Parent() == fn { // blocks of inlined helpers are on the path too
				last = pe.path[k]
				break
			}
		}
		edge := func(phi *ssa.Phi) ssa.Value {
			for k, pb := range hdr.Preds {
				if pb == last {
					return pe.resolve(phi.Edges[k])
				}
			}
			return nil
		}
		iNew, pNew, bufNew := edge(iPhi), edge(pPhi), edge(bufPhi)
		var problems []string
		// cursor
		advOK := false
		if add, ok := iNew.(*ssa.BinOp); ok && add.Op == token.ADD && pe.resolve(add.X) == ssa.Value(iPhi) {
			if w, ok := cval(add.Y, 0); ok && w == cl.width {
				advOK = true
			}
		}
		if !advOK {
			problems = append(problems, fmt.Sprintf("the cursor becomes %s instead of i+%d", describe(iNew), cl.width))
		}
		// appended payloads
		var outs []string
		var lastAppend *ssa.Call
		evalOK := true
		for _, call := range pe.calls {
			if builtinName(call) != "append" {
				continue
			}
			s, ok := payload(pe, call, cval)
			if !ok {
				evalOK = false
			}
			outs = append(outs, s)
			lastAppend = call
		}
		if !evalOK {
			c.undecided(key, p.pos(fn.Pos()), "an appended payload cannot be evaluated")
			continue
		}
		got := strings.Join(outs, "")
		// U+2028/2029 are legal inside a JSON string: the escape is a courtesy to JavaScript consumers, copying
		// them with the pending run denotes the same string
		asRaw := cl.esc == "" || (cl.r == 0x2028 || cl.r == 0x2029) && got == ""
		if asRaw {
			if got != "" {
				problems = append(problems, fmt.Sprintf("%q is appended although the character needs no escape", got))
			}
			if pNew != ssa.Value(pPhi) {
				problems = append(problems, "the start of the pending run moves although nothing was flushed")
			}
			if bufNew != ssa.Value(bufPhi) {
				problems = append(problems, "the buffer changes")
			}
		} else {
			want := "RAW(p,i)" + cl.esc
			if got != want {
				problems = append(problems, fmt.Sprintf("appends %s, the invariant requires %s", got, want))
			}
			// the same position, possibly computed twice (`p = i + 1; i++`)
			offI := func(v ssa.Value) (int64, bool) {
				if v == ssa.Value(iPhi) {
					return 0, true
				}
				if add, ok := v.(*ssa.BinOp); ok && add.Op == token.ADD && pe.resolve(add.X) == ssa.Value(iPhi) {
					return cval(add.Y, 0)
				}
				return 0, false
			}
			samePos := pNew == iNew
			if a, ok1 := offI(pNew); ok1 {
				if b, ok2 := offI(iNew); ok2 && a == b {
					samePos = true
				}
			}
			if !samePos {
				problems = append(problems, fmt.Sprintf("the start of the pending run becomes %s, not the new cursor: the next flush repeats or skips bytes", describe(pNew)))
			}
			if lastAppend == nil || bufNew != ssa.Value(lastAppend) {
				problems = append(problems, "the buffer carried to the next iteration is not the result of the last append")
			}
		}
		if len(problems) == 0 {
			if asRaw {
				c.ok(key, p.instrPos(cLoad), fmt.Sprintf("nothing appended, i += %d, p unchanged", cl.width))
			} else {
				c.ok(key, p.instrPos(cLoad), fmt.Sprintf("appends str[p:i] + %s, i += %d, p = i", cl.esc, cl.width))
			}
		} else {
			c.bad(key, p.instrPos(cLoad), strings.Join(problems, "; "))
		}
	}
	// prologue
	{
		key := fnm + "|prologue"
		var entryPred *ssa.BasicBlock
		for _, pb := range hdr.Preds {
			if !inLoop(*loop, pb) {
				entryPred = pb
			}
		}
		var problems []string
		if entryPred == nil {
			problems = append(problems, "no entry edge into the loop")
		} else {
			for k, pb := range hdr.Preds {
				if pb != entryPred {
					continue
				}
				if v, ok := constInt(iPhi.Edges[k]); !ok || v != 0 {
					problems = append(problems, "the cursor does not start at 0 ("+describe(iPhi.Edges[k])+"): the first byte is never examined")
				}
				if v, ok := constInt(pPhi.Edges[k]); !ok || v != 0 {
					problems = append(problems, "the pending run does not start at 0")
				}
				call, ok := bufPhi.Edges[k].(*ssa.Call)
				if !ok || builtinName(call) != "append" || call.Call.Args[0] != ssa.Value(fn.Params[0]) {
					problems = append(problems, "the buffer entering the loop is not append(buf, '\"')")
				} else if s, ok := payload(&pathExec{fn: fn, phi: map[*ssa.Phi]ssa.Value{}, mem: map[string]ssa.Value{}, vals: map[ssa.Value]ssa.Value{}, tup: map[*ssa.Call][]ssa.Value{}}, call, func(v ssa.Value, d int) (int64, bool) { return constInt(v) }); !ok || s != `"` {
					problems = append(problems, "the opening quote is not what is appended first")
				}
			}
		}
		if len(problems) == 0 {
			c.ok(key, p.pos(fn.Pos()), `buf + '"', i = p = 0`)
		} else {
			c.bad(key, p.pos(fn.Pos()), strings.Join(problems, "; "))
		}
	}
	// epilogue
	{
		key := fnm + "|epilogue"
		pe := &pathExec{fn: fn, start: hdr}
		pe.oracle = func(pe *pathExec, cond ssa.Value) (bool, bool) {
			if b, ok := cond.(*ssa.BinOp); ok && b.X == ssa.Value(iPhi) && b.Op == token.LSS {
				return false, true
			}
			return false, false
		}
		end, why := pe.run()
		ret, ok := end.(*ssa.Return)
		if !ok {
			c.undecided(key, p.pos(fn.Pos()), "cannot evaluate the code after the loop: "+why)
		} else {
			var outs []string
			var lastAppend *ssa.Call
			for _, call := range pe.calls {
				if builtinName(call) == "append" {
					s, _ := payload(pe, call, func(v ssa.Value, d int) (int64, bool) { return constInt(v) })
					outs = append(outs, s)
					lastAppend = call
				}
			}
			got := strings.Join(outs, "")
			if got == `RAW(p,end)"` && lastAppend != nil && pe.resolve(ret.Results[0]) == ssa.Value(lastAppend) {
				c.ok(key, p.instrPos(ret), `appends str[p:] and the closing quote, returns that buffer`)
			} else {
				c.bad(key, p.instrPos(ret), fmt.Sprintf("after the loop %s is appended; the invariant requires the rest of the pending run and the closing quote (RAW(p,end)\")", got))
			}
		}
	}
}
