package main

import (
	"fmt"
	"go/token"
	"go/types"

	"golang.org/x/tools/go/ssa"
)

func init() {
	register(&Rule{ID: "R28", Name: "ESC-TABLE", Floor: 250,
		Text: "one iteration of AppendQuotedString's loop is evaluated for each of the 256 values of the current byte c: for c < 0x80 the byte takes the `no escaping` path exactly when it is in 0x20..0x7F minus the quote and the backslash, and otherwise the bytes appended (besides the flush of the pending unescaped run) are exactly the JSON escape of c (\\t \\r \\n \\\\ \\\" or \\u00XX with the two hex digits of c); for c >= 0x80 the byte is never treated as a single-width character (the rune is decoded); the replacement escape \\ufffd is emitted only under `rune == RuneError && width == 1`, the line/paragraph separator escape only for U+2028/U+2029",
		Run:  runR28})
}

func runR28(c *Ctx) {
	p := c.P
	fn := p.anchorEscaper()
	if fn == nil {
		c.undecided("internal/strings.AppendQuotedString", "-", "not found")
		return
	}
	strP := fn.Params[1]
	// the byte load c := str[i]
	var cLoad *ssa.Index
	eachInstr(fn, func(in ssa.Instruction) {
		if lk, ok := in.(*ssa.Index); ok && lk.X == ssa.Value(strP) && cLoad == nil {
			cLoad = lk
		}
	})
	if cLoad == nil {
		c.undecided(fname(fn)+"|byte load", p.pos(fn.Pos()), "cannot find c := str[i]")
		return
	}
	var loop *loopInfo
	for _, li := range loopsOf(fn) {
		if inLoop(li, cLoad.Block()) {
			l := li
			loop = &l
		}
	}
	if loop == nil {
		c.undecided(fname(fn)+"|loop", p.pos(fn.Pos()), "the byte load is not in a loop")
		return
	}
	for k := 0; k < 256; k++ {
		key := fmt.Sprintf("%s|byte 0x%02x", fname(fn), k)
		decoded := false
		pe := &pathExec{fn: fn, start: cLoad.Block()}
		pe.stopAt = func(b *ssa.BasicBlock) bool { return b == loop.header }
		pe.inline = func(callee *ssa.Function) bool {
			// helpers of the escaper that receive the current byte (e.g. an extracted `append the escape of c`)
			if callee.Pkg != fn.Pkg {
				return false
			}
			for _, prm := range callee.Params {
				if b, ok := prm.Type().Underlying().(*types.Basic); ok && b.Kind() == types.Uint8 {
					return true
				}
			}
			return false
		}
		pe.onInstr = func(pe *pathExec, in ssa.Instruction) {
			if call, ok := in.(*ssa.Call); ok {
				if o := calleeObj(call); o != nil && o.Pkg() != nil && o.Pkg().Path() == "unicode/utf8" {
					decoded = true
				}
			}
		}
		var cval func(v ssa.Value, d int) (int64, bool)
		cval = func(v ssa.Value, d int) (int64, bool) {
			if d > 10 {
				return 0, false
			}
			v = pe.resolve(v)
			if v == ssa.Value(cLoad) {
				return int64(k), true
			}
			if x, ok := constInt(v); ok {
				return x, true
			}
			switch t := v.(type) {
			case *ssa.Convert:
				return cval(t.X, d+1)
			case *ssa.BinOp:
				x, ok1 := cval(t.X, d+1)
				y, ok2 := cval(t.Y, d+1)
				if ok1 && ok2 {
					switch t.Op {
					case token.SHR:
						return x >> uint(y), true
					case token.AND:
						return x & y, true
					}
				}
			}
			return 0, false
		}
		pe.oracle = func(pe *pathExec, cond ssa.Value) (bool, bool) {
			return pe.evalBool(cond, func(x ssa.Value) (bool, bool) {
				b, ok := x.(*ssa.BinOp)
				if !ok {
					return false, false
				}
				l, ok1 := cval(b.X, 0)
				r, ok2 := cval(b.Y, 0)
				if !ok1 || !ok2 {
					return false, false
				}
				switch b.Op {
				case token.EQL:
					return l == r, true
				case token.NEQ:
					return l != r, true
				case token.LSS:
					return l < r, true
				case token.LEQ:
					return l <= r, true
				case token.GTR:
					return l > r, true
				case token.GEQ:
					return l >= r, true
				}
				return false, false
			})
		}
		end, why := pe.run()
		if k >= 0x80 {
			// must reach the rune decoder (the executor stops at the first undecidable branch after it)
			if decoded {
				c.ok(key, p.instrPos(cLoad), "not single-width: the rune is decoded")
			} else {
				c.bad(key, p.instrPos(cLoad), "a byte >= 0x80 is handled as a single-width character without decoding the rune: multi-byte / invalid UTF-8 is copied or escaped wrongly")
			}
			continue
		}
		if end != nil || pe.stopped == nil {
			c.undecided(key, p.instrPos(cLoad), "cannot evaluate the iteration: "+why)
			continue
		}
		// bytes appended on the path, except the flush str[p:i]
		out := ""
		okEval := true
		for _, call := range pe.calls {
			if builtinName(call) != "append" {
				continue
			}
			a := call.Call.Args[1]
			if s, ok := constString(a); ok {
				out += s
				continue
			}
			if sl, ok := a.(*ssa.Slice); ok {
				if sl.X == ssa.Value(strP) {
					continue // flush of the pending unescaped run
				}
				// variadic single byte
				if al, ok := sl.X.(*ssa.Alloc); ok {
					for _, r := range *al.Referrers() {
						if ia, ok := r.(*ssa.IndexAddr); ok {
							for _, r2 := range *ia.Referrers() {
								if st, ok := r2.(*ssa.Store); ok {
									if b, ok := byteValue(st.Val, cval); ok {
										out += string(rune(b))
									} else {
										okEval = false
									}
								}
							}
						}
					}
					continue
				}
			}
			okEval = false
		}
		if !okEval {
			c.undecided(key, p.instrPos(cLoad), "an appended payload cannot be evaluated")
			continue
		}
		want := ""
		switch {
		case k == '\t':
			want = `\t`
		case k == '\r':
			want = `\r`
		case k == '\n':
			want = `\n`
		case k == '\\':
			want = `\\`
		case k == '"':
			want = `\"`
		case k < 0x20:
			want = fmt.Sprintf(`\u00%02x`, k)
		}
		// 0x7f (DEL) is allowed unescaped by JSON
		if out == want {
			if want == "" {
				c.ok(key, p.instrPos(cLoad), "copied unescaped (allowed by JSON)")
			} else {
				c.ok(key, p.instrPos(cLoad), "escaped as "+want)
			}
		} else {
			c.bad(key, p.instrPos(cLoad), fmt.Sprintf("byte 0x%02x is written as %q but valid JSON requires %q", k, out, want))
		}
	}
	// the multi-byte escapes are guarded
	eachInstr(fn, func(in ssa.Instruction) {
		call, ok := in.(*ssa.Call)
		if !ok || builtinName(call) != "append" {
			return
		}
		s, ok := constString(call.Call.Args[1])
		if !ok {
			return
		}
		switch s {
		case "\\ufffd":
			gErr, gW := false, false
			for _, g := range dominatingGuards(call.Block()) {
				b, ok := g.Cond.(*ssa.BinOp)
				if !ok || b.Op != token.EQL || !g.Val {
					continue
				}
				ex, ok := b.X.(*ssa.Extract)
				if !ok {
					continue
				}
				if k, isK := constInt(b.Y); isK {
					if ex.Index == 0 && k == 0xFFFD {
						gErr = true
					}
					if ex.Index == 1 && k == 1 {
						gW = true
					}
				}
			}
			key := fname(fn) + `|replacement-char escape`
			if gErr && gW {
				c.ok(key, p.instrPos(call), "only under rune == RuneError && width == 1 (an invalid byte, not a genuine U+FFFD)")
			} else {
				c.bad(key, p.instrPos(call), `the replacement escape is not guarded by both rune == RuneError and width == 1: a validly encoded U+FFFD (3 bytes) is rewritten byte-wise / invalid bytes are copied through`)
			}
		case `\u202`:
			n := 0
			for _, g := range dominatingGuards(call.Block()) {
				if b, ok := g.Cond.(*ssa.BinOp); ok && b.Op == token.EQL && g.Val {
					if k, isK := constInt(b.Y); isK && (k == 0x2028 || k == 0x2029) {
						n++
					}
				}
			}
			key := fname(fn) + `|\u202x escape`
			// `a == 0x2028 || a == 0x2029` -> the block has two predecessors; accept when reached only via those tests
			okG := n >= 1 || onlyViaSeparatorTests(call.Block())
			if okG {
				c.ok(key, p.instrPos(call), "only for U+2028 / U+2029")
			} else {
				c.bad(key, p.instrPos(call), "the separator escape is not limited to U+2028/U+2029")
			}
		}
	})
}

func onlyViaSeparatorTests(b *ssa.BasicBlock) bool {
	if len(b.Preds) == 0 {
		return false
	}
	for _, pd := range b.Preds {
		iff, ok := pd.Instrs[len(pd.Instrs)-1].(*ssa.If)
		if !ok || pd.Succs[0] != b {
			return false
		}
		cmp, ok := iff.Cond.(*ssa.BinOp)
		if !ok || cmp.Op != token.EQL {
			return false
		}
		k, isK := constInt(cmp.Y)
		if !isK || k != 0x2028 && k != 0x2029 {
			return false
		}
	}
	return true
}

// byteValue evaluates a byte expression such as chars[c>>4] for the current c.
func byteValue(v ssa.Value, cval func(ssa.Value, int) (int64, bool)) (int64, bool) {
	switch t := v.(type) {
	case *ssa.Index:
		if s, ok := constString(t.X); ok {
			if i, ok := cval(t.Index, 0); ok && i >= 0 && int(i) < len(s) {
				return int64(s[i]), true
			}
		}
	case *ssa.Convert:
		return byteValue(t.X, cval)
	case *ssa.Const:
		return constInt(t)
	}
	if _, ok := v.Type().Underlying().(*types.Basic); ok {
		return cval(v, 0)
	}
	return 0, false
}
