#!/bin/bash
# usage: seed_round.sh <PROP> <offset> <round> [extra go test flag] -- confirms /tmp/seed/out_<PROP>/{1,2}, stores as <PROP>-(n+offset), evaluates
p=$1; off=$2; round=$3; flag=${4:-}
for n in 1 2; do
  [ -d /tmp/seed/out_$p/$n ] || continue
  r=$(/verif/tools/confirm_seed.sh /tmp/seed/out_$p/$n ${p}_r${round}_$n $flag 2>&1 | tail -1)
  echo "$r"
  if echo "$r" | grep -q "suite_with_patch=pass demo_with_patch=fails demo_clean=pass"; then
    /verif/tools/seed_store.py /tmp/seed/out_$p/$n $p-$((n+off)) "${r#*: } (round $round)"
    /verif/tools/seed_eval.sh $p-$((n+off))
  fi
done
