#!/usr/bin/env python3
# Runs every rule of qfcheck against each surviving mutant (overlay; nothing is executed) and records which rules report.
# usage: run_check.py <qfcheck binary> <checkout> <mutdir> [jobs]
import json, os, subprocess, sys, concurrent.futures as cf
binp, repo, mut = sys.argv[1], sys.argv[2], sys.argv[3]
jobs = int(sys.argv[4]) if len(sys.argv) > 4 else 6
ms = {m["id"]: m for m in (json.loads(l) for l in open(os.path.join(mut, "index.jsonl")))}
surv = [json.loads(l)["id"] for l in open(os.path.join(mut, "results.jsonl")) if json.loads(l)["status"] == "survived"]
if os.path.exists(os.path.join(mut, "keep.json")):  # optional sample / filter of the survivors
    surv = json.load(open(os.path.join(mut, "keep.json")))
outf = os.path.join(mut, "checked.jsonl")
done = set()
if os.path.exists(outf):
    done = {json.loads(l)["id"] for l in open(outf)}
def keys_of(out):
    return {l.split()[1] for l in out.splitlines() if l.startswith("  VIOLATED") or l.startswith("  UNDECIDED")}
# what the checker says about the unmodified checkout (it may predate a repair): subtracted from every mutant's report
base = keys_of(subprocess.run([binp, "-repo", repo, "-verif", "/verif", "-rules", "all", "-no-evidence"],
                              stdout=subprocess.PIPE, stderr=subprocess.STDOUT).stdout.decode(errors="replace"))
print("baseline keys:", sorted(base))
def run(i):
    m = ms[i]
    try:
        p = subprocess.run([binp, "-repo", repo, "-verif", "/verif", "-rules", "all", "-no-evidence",
                            "-overlay", "%s=%s" % (m["file"], os.path.join(mut, "%d.go" % i))],
                           stdout=subprocess.PIPE, stderr=subprocess.STDOUT, timeout=600)
        out = p.stdout.decode(errors="replace")
    except subprocess.TimeoutExpired:
        out = "TIMEOUT"
    keys = sorted(keys_of(out) - base)
    st = "detected" if keys else ("invalid" if "cannot analyse" in out else "silent")
    return {"id": i, "status": st, "rules": sorted({k.split("|")[0] for k in keys}), "keys": keys[:6]}
todo = [i for i in surv if i not in done]
with cf.ThreadPoolExecutor(jobs) as ex, open(outf, "a") as f:
    for r in ex.map(run, todo):
        f.write(json.dumps(r) + "\n"); f.flush()
import collections
c = collections.Counter(json.loads(l)["status"] for l in open(outf))
print(dict(c))
