#!/usr/bin/env python3
# Runs the existing test suite against every mutant in <mutdir> through `go test -overlay` (the checkout is never modified).
# usage: run_tests.py <checkout> <mutdir> [jobs]
import json, os, subprocess, sys, concurrent.futures as cf
repo, mut = sys.argv[1], sys.argv[2]
jobs = int(sys.argv[3]) if len(sys.argv) > 3 else 12
env = dict(os.environ, GOFLAGS="-mod=mod", GOPROXY="off", GOSUMDB="off", GOTOOLCHAIN="local")
env.pop("GOWORK", None)
ms = [json.loads(l) for l in open(os.path.join(mut, "index.jsonl"))]
done = {}
resf = os.path.join(mut, "results.jsonl")
if os.path.exists(resf):
    for l in open(resf):
        r = json.loads(l); done[r["id"]] = r
def run(m):
    if m["id"] in done:
        return done[m["id"]]
    ov = os.path.join(mut, "%d.overlay.json" % m["id"])
    json.dump({"Replace": {os.path.join(repo, m["file"]): os.path.join(mut, "%d.go" % m["id"])}}, open(ov, "w"))
    try:
        p = subprocess.run(["go", "test", "-overlay=" + ov, "-vet=off", "-count=1", "./..."], cwd=repo, env=env,
                           stdout=subprocess.PIPE, stderr=subprocess.STDOUT, timeout=120)
        out = p.stdout.decode(errors="replace")
        if p.returncode == 0:
            st = "survived"
        elif "[build failed]" in out or "cannot use" in out and "FAIL" not in out.replace("[build failed]", ""):
            st = "build-failed"
        else:
            st = "killed"
    except subprocess.TimeoutExpired:
        st = "timeout"
    os.remove(ov)
    return {"id": m["id"], "status": st}
with cf.ThreadPoolExecutor(jobs) as ex, open(resf, "a") as f:
    for r in ex.map(run, ms):
        if r["id"] not in done:
            f.write(json.dumps(r) + "\n"); f.flush()
import collections
c = collections.Counter(json.loads(l)["status"] for l in open(resf))
print(dict(c))
