// mutate enumerates mechanical single-edit mutants of a Go source tree (operator swaps, literal tweaks,
// condition negation, statement deletion). Used only to measure the checker: mutants that survive the
// existing test suite are candidates for "realistic changes the tests do not see".
package main

import (
	"bytes"
	"encoding/json"
	"flag"
	"fmt"
	"go/ast"
	"go/parser"
	"go/printer"
	"go/token"
	"os"
	"path/filepath"
	"strconv"
	"strings"
)

type meta struct {
	ID     int    `json:"id"`
	File   string `json:"file"`
	Line   int    `json:"line"`
	Op     string `json:"op"`
	Before string `json:"before"`
	After  string `json:"after"`
}

var swaps = map[token.Token][]token.Token{
	token.LSS:  {token.LEQ, token.GEQ},
	token.LEQ:  {token.LSS},
	token.GTR:  {token.GEQ, token.LEQ},
	token.GEQ:  {token.GTR},
	token.EQL:  {token.NEQ},
	token.NEQ:  {token.EQL},
	token.ADD:  {token.SUB},
	token.SUB:  {token.ADD},
	token.LAND: {token.LOR},
	token.LOR:  {token.LAND},
	token.MUL:  {token.QUO},
	token.SHL:  {token.SHR},
	token.SHR:  {token.SHL},
	token.AND:  {token.OR},
	token.OR:   {token.AND},
}

func main() {
	repo := flag.String("repo", "", "checkout")
	out := flag.String("out", "", "output dir")
	flag.BoolVar(&ops2, "ops2", false, "second operator set: drop an operand of && / ||, remove a !, swap the first two call arguments, swap two returned identifiers, < <-> >")
	flag.BoolVar(&ops3, "ops3", false, "third operator set: returned error -> nil, `if c { return .. }` emptied, slice bounds and indexes off by one, += -> =, ++ <-> --, a value dropped from a case list, adjacent map-literal values swapped")
	flag.Parse()
	dirs := flag.Args()
	os.MkdirAll(*out, 0o755)
	idx, _ := os.Create(filepath.Join(*out, "index.jsonl"))
	defer idx.Close()
	enc := json.NewEncoder(idx)
	id := 0
	for _, d := range dirs {
		files, _ := filepath.Glob(filepath.Join(*repo, d, "*.go"))
		for _, f := range files {
			if strings.HasSuffix(f, "_test.go") {
				continue
			}
			rel, _ := filepath.Rel(*repo, f)
			src, err := os.ReadFile(f)
			if err != nil {
				continue
			}
			// count sites first, then re-parse per mutant (simple and safe)
			n := countSites(src)
			for site := 0; site < n; site++ {
				for variant := 0; variant < 3; variant++ {
					fset := token.NewFileSet()
					file, err := parser.ParseFile(fset, f, src, parser.ParseComments)
					if err != nil {
						break
					}
					m, ok := apply(fset, file, site, variant)
					if !ok {
						break
					}
					var buf bytes.Buffer
					if err := printer.Fprint(&buf, fset, file); err != nil {
						continue
					}
					id++
					m.ID, m.File = id, rel
					os.WriteFile(filepath.Join(*out, fmt.Sprintf("%d.go", id)), buf.Bytes(), 0o644)
					enc.Encode(m)
				}
			}
		}
	}
	fmt.Println("mutants:", id)
}

var ops2, ops3 bool

type site struct {
	node   ast.Node
	parent ast.Node
	list   *[]ast.Stmt
	idx    int
}

func sites(file *ast.File) []site {
	if ops3 {
		return sites3(file)
	}
	if ops2 {
		return sites2(file)
	}
	var out []site
	inConst := false
	ast.Inspect(file, func(n ast.Node) bool {
		switch t := n.(type) {
		case *ast.GenDecl:
			inConst = t.Tok == token.CONST || t.Tok == token.VAR && false
			_ = inConst
		case *ast.BinaryExpr:
			if _, ok := swaps[t.Op]; ok {
				// skip string concatenation
				if t.Op == token.ADD {
					if bl, ok := t.X.(*ast.BasicLit); ok && bl.Kind == token.STRING {
						return true
					}
					if bl, ok := t.Y.(*ast.BasicLit); ok && bl.Kind == token.STRING {
						return true
					}
				}
				out = append(out, site{node: t})
			}
		case *ast.BasicLit:
			if t.Kind == token.INT {
				out = append(out, site{node: t})
			}
		case *ast.Ident:
			if t.Name == "true" || t.Name == "false" {
				out = append(out, site{node: t})
			}
		case *ast.IfStmt:
			out = append(out, site{node: t})
		case *ast.BlockStmt:
			for i, s := range t.List {
				switch st := s.(type) {
				case *ast.ExprStmt, *ast.IncDecStmt, *ast.BranchStmt:
					out = append(out, site{node: s, list: &t.List, idx: i})
				case *ast.AssignStmt:
					if st.Tok != token.DEFINE {
						out = append(out, site{node: s, list: &t.List, idx: i})
					}
				}
			}
		case *ast.CaseClause:
			for i, s := range t.Body {
				switch st := s.(type) {
				case *ast.ExprStmt, *ast.IncDecStmt, *ast.BranchStmt:
					out = append(out, site{node: s, list: &t.Body, idx: i})
				case *ast.AssignStmt:
					if st.Tok != token.DEFINE {
						out = append(out, site{node: s, list: &t.Body, idx: i})
					}
				}
			}
		}
		return true
	})
	return out
}

func countSites(src []byte) int {
	fset := token.NewFileSet()
	file, err := parser.ParseFile(fset, "x.go", src, parser.ParseComments)
	if err != nil {
		return 0
	}
	return len(sites(file))
}

func exprString(fset *token.FileSet, n ast.Node) string {
	var b bytes.Buffer
	printer.Fprint(&b, fset, n)
	s := b.String()
	if len(s) > 120 {
		s = s[:120]
	}
	return strings.ReplaceAll(s, "\n", " ")
}

func apply(fset *token.FileSet, file *ast.File, k, variant int) (meta, bool) {
	if ops3 {
		return apply3(fset, file, k, variant)
	}
	if ops2 {
		return apply2(fset, file, k, variant)
	}
	ss := sites(file)
	if k >= len(ss) {
		return meta{}, false
	}
	s := ss[k]
	m := meta{Line: fset.Position(s.node.Pos()).Line, Before: exprString(fset, s.node)}
	switch t := s.node.(type) {
	case *ast.BinaryExpr:
		alts := swaps[t.Op]
		if variant >= len(alts) {
			return m, false
		}
		m.Op = "binop " + t.Op.String() + "->" + alts[variant].String()
		t.Op = alts[variant]
	case *ast.BasicLit:
		v, err := strconv.ParseInt(t.Value, 0, 64)
		if err != nil {
			return m, false
		}
		switch variant {
		case 0:
			if v == 0 {
				t.Value = "1"
			} else {
				t.Value = strconv.FormatInt(v-1, 10)
			}
		case 1:
			t.Value = strconv.FormatInt(v+1, 10)
		}
		m.Op = "intlit"
	case *ast.Ident:
		if variant > 0 {
			return m, false
		}
		if t.Name == "true" {
			t.Name = "false"
		} else {
			t.Name = "true"
		}
		m.Op = "boollit"
	case *ast.IfStmt:
		if variant > 0 {
			return m, false
		}
		t.Cond = &ast.UnaryExpr{Op: token.NOT, X: &ast.ParenExpr{X: t.Cond}}
		m.Op = "negate-if"
		m.Before = exprString(fset, t.Cond)
	default:
		if s.list == nil || variant > 0 {
			return m, false
		}
		m.Op = "delete-stmt"
		l := *s.list
		// replace by an empty statement to keep positions/comments stable
		l[s.idx] = &ast.EmptyStmt{Semicolon: s.node.Pos(), Implicit: false}
	}
	m.After = exprString(fset, s.node)
	return m, true
}

// ---- second operator set ----

type site2 struct {
	kind   string
	node   ast.Node
	parent ast.Node
	field  *ast.Expr
}

func sites2(file *ast.File) []site {
	var out []site
	ast.Inspect(file, func(n ast.Node) bool {
		switch t := n.(type) {
		case *ast.BinaryExpr:
			if t.Op == token.LAND || t.Op == token.LOR || t.Op == token.LSS || t.Op == token.GTR {
				out = append(out, site{node: t})
			}
		case *ast.UnaryExpr:
			if t.Op == token.NOT {
				out = append(out, site{node: t})
			}
		case *ast.CallExpr:
			if len(t.Args) >= 2 {
				_, l0 := t.Args[0].(*ast.BasicLit)
				_, l1 := t.Args[1].(*ast.BasicLit)
				if !l0 && !l1 {
					out = append(out, site{node: t})
				}
			}
		case *ast.ReturnStmt:
			if len(t.Results) == 2 {
				_, a := t.Results[0].(*ast.Ident)
				_, b := t.Results[1].(*ast.Ident)
				if a && b {
					out = append(out, site{node: t})
				}
			}
		}
		return true
	})
	return out
}

func replaceExpr(file *ast.File, old, repl ast.Expr) bool {
	done := false
	ast.Inspect(file, func(n ast.Node) bool {
		if done || n == nil {
			return false
		}
		switch t := n.(type) {
		case *ast.BinaryExpr:
			if t.X == old {
				t.X, done = repl, true
			} else if t.Y == old {
				t.Y, done = repl, true
			}
		case *ast.UnaryExpr:
			if t.X == old {
				t.X, done = repl, true
			}
		case *ast.ParenExpr:
			if t.X == old {
				t.X, done = repl, true
			}
		case *ast.IfStmt:
			if t.Cond == old {
				t.Cond, done = repl, true
			}
		case *ast.ForStmt:
			if t.Cond == old {
				t.Cond, done = repl, true
			}
		case *ast.AssignStmt:
			for i, r := range t.Rhs {
				if r == old {
					t.Rhs[i], done = repl, true
				}
			}
		case *ast.ReturnStmt:
			for i, r := range t.Results {
				if r == old {
					t.Results[i], done = repl, true
				}
			}
		case *ast.CallExpr:
			for i, r := range t.Args {
				if r == old {
					t.Args[i], done = repl, true
				}
			}
		case *ast.ValueSpec:
			for i, r := range t.Values {
				if r == old {
					t.Values[i], done = repl, true
				}
			}
		case *ast.KeyValueExpr:
			if t.Value == old {
				t.Value, done = repl, true
			}
		}
		return !done
	})
	return done
}

func apply2(fset *token.FileSet, file *ast.File, k, variant int) (meta, bool) {
	ss := sites2(file)
	if k >= len(ss) {
		return meta{}, false
	}
	s := ss[k]
	m := meta{Line: fset.Position(s.node.Pos()).Line, Before: exprString(fset, s.node)}
	switch t := s.node.(type) {
	case *ast.BinaryExpr:
		switch t.Op {
		case token.LAND, token.LOR:
			keep := t.X
			if variant == 1 {
				keep = t.Y
			} else if variant > 1 {
				return m, false
			}
			m.Op = "drop-operand " + t.Op.String()
			if !replaceExpr(file, t, keep) {
				return m, false
			}
			m.After = exprString(fset, keep)
			return m, true
		case token.LSS:
			if variant > 0 {
				return m, false
			}
			t.Op, m.Op = token.GTR, "binop <->>"
		case token.GTR:
			if variant > 0 {
				return m, false
			}
			t.Op, m.Op = token.LSS, "binop >-><"
		}
	case *ast.UnaryExpr:
		if variant > 0 {
			return m, false
		}
		m.Op = "remove-not"
		if !replaceExpr(file, t, t.X) {
			return m, false
		}
		m.After = exprString(fset, t.X)
		return m, true
	case *ast.CallExpr:
		if variant > 0 {
			return m, false
		}
		t.Args[0], t.Args[1] = t.Args[1], t.Args[0]
		m.Op = "swap-args"
	case *ast.ReturnStmt:
		if variant > 0 {
			return m, false
		}
		t.Results[0], t.Results[1] = t.Results[1], t.Results[0]
		m.Op = "swap-results"
	}
	m.After = exprString(fset, s.node)
	return m, true
}


// ---- third operator set ----

func sites3(file *ast.File) []site {
	var out []site
	ast.Inspect(file, func(n ast.Node) bool {
		switch t := n.(type) {
		case *ast.ReturnStmt:
			if k := len(t.Results); k >= 1 {
				switch r := t.Results[k-1].(type) {
				case *ast.Ident:
					if r.Name == "err" {
						out = append(out, site{node: t})
					}
				case *ast.CallExpr:
					if sel, ok := r.Fun.(*ast.SelectorExpr); ok {
						if x, ok := sel.X.(*ast.Ident); ok && (x.Name == "qerrors" || x.Name == "errors" || x.Name == "fmt" && sel.Sel.Name == "Errorf") {
							out = append(out, site{node: t})
						}
					}
				}
			}
		case *ast.IfStmt:
			if t.Else == nil && len(t.Body.List) == 1 {
				if _, ok := t.Body.List[0].(*ast.ReturnStmt); ok {
					out = append(out, site{node: t})
				}
			}
		case *ast.SliceExpr:
			out = append(out, site{node: t})
		case *ast.IndexExpr:
			if _, lit := t.Index.(*ast.BasicLit); !lit {
				out = append(out, site{node: t})
			}
		case *ast.AssignStmt:
			if t.Tok == token.ADD_ASSIGN || t.Tok == token.SUB_ASSIGN {
				out = append(out, site{node: t})
			}
		case *ast.IncDecStmt:
			out = append(out, site{node: t})
		case *ast.CaseClause:
			if len(t.List) >= 2 {
				out = append(out, site{node: t})
			}
		case *ast.CompositeLit:
			nkv := 0
			for _, e := range t.Elts {
				if _, ok := e.(*ast.KeyValueExpr); ok {
					nkv++
				}
			}
			if _, isMap := t.Type.(*ast.MapType); isMap && nkv >= 2 {
				out = append(out, site{node: t})
			}
		}
		return true
	})
	return out
}

func apply3(fset *token.FileSet, file *ast.File, k, variant int) (meta, bool) {
	ss := sites3(file)
	if k >= len(ss) {
		return meta{}, false
	}
	s := ss[k]
	m := meta{Line: fset.Position(s.node.Pos()).Line, Before: exprString(fset, s.node)}
	one := &ast.BasicLit{Kind: token.INT, Value: "1"}
	switch t := s.node.(type) {
	case *ast.ReturnStmt:
		if variant > 0 {
			return m, false
		}
		t.Results[len(t.Results)-1] = ast.NewIdent("nil")
		m.Op = "error->nil"
	case *ast.IfStmt:
		if variant > 0 {
			return m, false
		}
		t.Body.List = nil
		m.Op = "empty-if-return"
	case *ast.SliceExpr:
		switch variant {
		case 0:
			if t.Low == nil {
				t.Low = one
			} else {
				t.Low = &ast.BinaryExpr{X: t.Low, Op: token.ADD, Y: one}
			}
			m.Op = "slice-low+1"
		case 1:
			if t.High == nil {
				return m, false
			}
			t.High = &ast.BinaryExpr{X: t.High, Op: token.SUB, Y: one}
			m.Op = "slice-high-1"
		default:
			return m, false
		}
	case *ast.IndexExpr:
		switch variant {
		case 0:
			t.Index = &ast.BinaryExpr{X: t.Index, Op: token.ADD, Y: one}
			m.Op = "index+1"
		default:
			return m, false
		}
	case *ast.AssignStmt:
		if variant > 0 {
			return m, false
		}
		m.Op = t.Tok.String() + "->="
		t.Tok = token.ASSIGN
	case *ast.IncDecStmt:
		if variant > 0 {
			return m, false
		}
		if t.Tok == token.INC {
			t.Tok, m.Op = token.DEC, "++->--"
		} else {
			t.Tok, m.Op = token.INC, "--->++"
		}
	case *ast.CaseClause:
		if variant >= len(t.List) || variant > 2 {
			return m, false
		}
		m.Op = "drop-case-value"
		t.List = append(append([]ast.Expr(nil), t.List[:variant]...), t.List[variant+1:]...)
	case *ast.CompositeLit:
		var kvs []*ast.KeyValueExpr
		for _, e := range t.Elts {
			if kv, ok := e.(*ast.KeyValueExpr); ok {
				kvs = append(kvs, kv)
			}
		}
		// variant 0: swap values of the first two entries; 1: of the last two; 2: of the middle pair
		var i int
		switch variant {
		case 0:
			i = 0
		case 1:
			i = len(kvs) - 2
			if i == 0 {
				return m, false
			}
		default:
			i = len(kvs)/2 - 1
			if i <= 0 || i >= len(kvs)-2 {
				return m, false
			}
		}
		kvs[i].Value, kvs[i+1].Value = kvs[i+1].Value, kvs[i].Value
		m.Op = "swap-map-values"
		m.Before = exprString(fset, kvs[i].Key) + " / " + exprString(fset, kvs[i+1].Key)
		m.After = "values exchanged"
		return m, true
	}
	m.After = exprString(fset, s.node)
	if len(m.After) > 200 {
		m.After = m.After[:200]
	}
	if len(m.Before) > 200 {
		m.Before = m.Before[:200]
	}
	return m, true
}
