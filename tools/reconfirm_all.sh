#!/bin/bash
# re-confirms every stored seed against /repo HEAD (after fix commits): prints one line per seed
cd /verif
for d in seeded/*/; do
  sid=$(basename $d)
  flag=""; [[ $sid == C11-* ]] && flag="-race"
  r=$(tools/confirm_seed.sh /verif/$d rc_$sid $flag 2>&1 | tail -1)
  echo "$sid ${r#*: }"
done
