#!/bin/bash
# usage: import_refactors.sh <group> [srcroot]  -- verifies /tmp/ref4/out_<G>/k (applies to /repo HEAD in a scratch worktree, builds, full suite passes) and stores it as refactors/<G>-k
g=$1; root=${2:-/tmp/ref4}
export GOFLAGS=-mod=mod GOPROXY=off GOSUMDB=off GOTOOLCHAIN=local; unset GOWORK
wt=/tmp/refimport_$g
rm -rf $wt; git -C /repo worktree prune
git -C /repo worktree add --detach $wt HEAD -q || exit 9
trap 'git -C /repo worktree remove --force '$wt' 2>/dev/null' EXIT
for k in 1 2 3 4; do
  d=$root/out_$g/$k
  [ -f $d/patch.diff ] || continue
  cd $wt && git checkout -q -- . && git clean -fdq
  if ! git apply $d/patch.diff 2>/dev/null; then echo "$g-$k: does not apply to HEAD"; continue; fi
  if ! go build ./... >/dev/null 2>&1; then echo "$g-$k: build fails"; continue; fi
  ok=1; for i in 1 2; do go test -vet=off -count=1 ./... >/tmp/refimport_$g.log 2>&1 && { ok=0; break; }; done
  if [ $ok != 0 ]; then echo "$g-$k: suite FAILS"; continue; fi
  mkdir -p /verif/refactors/$g-$k && cp $d/patch.diff $d/meta.json /verif/refactors/$g-$k/ && echo "$g-$k: stored"
done
