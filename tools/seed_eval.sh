#!/bin/bash
# Runs the quick check of each seed's property against /repo with the seed applied; records detection in meta.json.
cd /verif
for d in seeded/*/; do
  sid=$(basename $d); p=$(jq -r .property $d/meta.json)
  [ -n "${1:-}" ] && [[ "$sid" != $1* ]] && continue
  out=$(tools/withpatch.sh /verif/$d/patch.diff bin/qfcheck -property $p -no-evidence 2>&1)
  keys=$(echo "$out" | grep -E "^  (VIOLATED|UNDECIDED)" | awk '{print $2}' | sort -u | head -5 | paste -sd';')
  if echo "$out" | grep -q "^VIOLATION"; then det="detected: $keys"; else det="MISSED"; fi
  if echo "$out" | grep -q "withpatch:"; then det="patch does not apply"; fi
  python3 - "$d/meta.json" "$det" <<'PY'
import json,sys
m=json.load(open(sys.argv[1])); m["detected_by"]=sys.argv[2]; json.dump(m,open(sys.argv[1],'w'),indent=1)
PY
  echo "$sid ($p): $det" | cut -c1-260
done
