#!/bin/bash
# Builds bin/qfcheck from the vendored module, offline.
set -e
cd "$(dirname "$0")/../qfcheck"
export GOFLAGS=-mod=vendor GOPROXY=off GOSUMDB=off GOTOOLCHAIN=local
unset GOWORK
mkdir -p ../bin
go build -o ../bin/qfcheck ./cmd/qfcheck
