#!/usr/bin/env python3
# Regenerates MANIFEST.json from `qfcheck -list` (properties that have at least one built rule are claimed).
import json, subprocess, re, os
os.chdir(os.path.dirname(os.path.abspath(__file__)) + "/..")
props = [json.loads(l) for l in open("properties.jsonl")]
out = subprocess.check_output(["bin/qfcheck", "-list"]).decode().splitlines()
prules, built = {}, set()
for l in out:
    m = re.match(r"^(C\d+): (.*)$", l)
    if m:
        prules[m.group(1)] = m.group(2).split()
    m = re.match(r"^(R\w+)\s", l)
    if m:
        built.add(m.group(1))
notes = json.load(open("tools/manifest_notes.json"))
checks, na = [], []
for p in props:
    pid = p["id"]
    rs = [r for r in prules.get(pid, []) if r in built]
    if not rs:
        na.append({"property_id": pid, "reason": "no rule built yet for this property; see DESIGN.md section 4"})
        continue
    n = notes[pid]
    checks.append({
        "property_id": pid,
        "quick_cmd": "tools/run.sh %s quick" % pid,
        "thorough_cmd": "tools/run.sh %s thorough" % pid,
        "evidence_file": "/verif/evidence/%s.json" % pid,
        "replay_cmd_template": "bin/qfcheck -explain {path}",
        "engine": "qfcheck",
        "level_claimed": {"category": "other", "text": n["text"], "design_ref": "DESIGN.md 4 (%s), 3 (rules %s)" % (pid, ", ".join(rs))},
        "level_note": n["note"],
        "technique": n["technique"],
    })
m = {
    "version": 1,
    "setup_cmd": "tools/setup.sh",
    "hooks": {"guard": "verif", "enable": "none: static analysis reads /repo's source as built by default (the repository has no build tags); no hooks or instrumentation exist",
              "baseline_off_cmd": "cd /repo && GOFLAGS=-mod=mod GOPROXY=off GOSUMDB=off go test -vet=off -count=1 ./...", "source_commits": [], "add_only": True},
    "engines": [{"name": "qfcheck", "path": "qfcheck/", "serves_properties": [c["property_id"] for c in checks],
                 "kind_free_text": "repository-specific static analyzer over go/packages + go/ssa (x/tools v0.29.0, vendored): purity/points-to interpretation, index-space typing, kernel shape, guard/dominance, error-flow, table rules; never executes qframe code"}],
    "checks": checks,
    "not_applicable": na,
    "notes": "Technique family: static analysis. Every check loads and type-checks /repo's current working tree on each run and reports constructs (file:line, function, call chain). Known/fixed defects: known_findings.json. Design: DESIGN.md.",
}
json.dump(m, open("MANIFEST.json", "w"), indent=1)
print("checks:", len(checks), "not_applicable:", len(na))
