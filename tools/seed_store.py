#!/usr/bin/env python3
# usage: seed_store.py <srcdir> <seed-id> "<confirm result line>"
import json,sys,shutil,os
src,sid,conf=sys.argv[1:4]
dst='/verif/seeded/'+sid
os.makedirs(dst,exist_ok=True)
shutil.copy(src+'/patch.diff',dst+'/patch.diff')
shutil.copy(src+'/demo_test.go',dst+'/demo_test.go')
m=json.load(open(src+'/meta.json'))
out={"seed":sid,"property":m.get("property"),"summary":m.get("summary"),"needs":m.get("needs"),"files_changed":m.get("files_changed"),
 "demo_dir":m.get("demo_dir","."),"source":"independent sub-agent given only the property text and a scratch worktree",
 "confirmed":conf,"confirmed_how":"tools/confirm_seed.sh in a scratch worktree of /repo HEAD: patch applies, go build ok, full suite passes with the patch, demo fails with the patch and passes without",
 "detected_by":None}
json.dump(out,open(dst+'/meta.json','w'),indent=1)
