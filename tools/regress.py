#!/usr/bin/env python3
# Regression sweep of the checker over stored patches, in parallel, on scratch worktrees of /repo HEAD (never /repo itself).
# usage: regress.py refactors|seeds [-j N] [name-prefix ...]
#   refactors: every refactors/<id>/patch.diff must be silent under `-rules all`
#   seeds:     every seeded/<id>/patch.diff is run under its own property's quick rules; prints detected/MISSED
# Worktrees live under $TMPDIR (default /tmp) and are removed at the end.
import json, os, subprocess, sys, glob, concurrent.futures as cf, queue, tempfile, shutil

mode = sys.argv[1]
args = sys.argv[2:]
jobs = 6
if '-j' in args:
    i = args.index('-j'); jobs = int(args[i + 1]); del args[i:i + 2]
write_meta = '-w' in args
if write_meta:
    args.remove('-w')
prefixes = args
env = dict(os.environ, GOFLAGS='-mod=mod', GOPROXY='off', GOSUMDB='off', GOTOOLCHAIN='local')
env.pop('GOWORK', None)
base = tempfile.mkdtemp(prefix='qfregress_')
pool = queue.Queue()
for k in range(jobs):
    wt = os.path.join(base, 'wt%d' % k)
    subprocess.run(['git', '-C', '/repo', 'worktree', 'add', '--detach', wt, 'HEAD', '-q'], check=True)
    pool.put(wt)
binp = os.path.join(base, 'qfcheck')
shutil.copy('/verif/bin/qfcheck', binp)

# what the checker says on the unchanged tree under `-rules all` (the known findings, which are keyed per
# property and therefore not suppressed in an ad-hoc run): subtracted from every patch's report
baseline = set()
if mode == 'refactors':
    wt0 = pool.get()
    p0 = subprocess.run([binp, '-repo', wt0, '-verif', '/verif', '-rules', 'all', '-no-evidence'], stdout=subprocess.PIPE, stderr=subprocess.STDOUT, env=env)
    baseline = {l.split()[1] for l in p0.stdout.decode(errors='replace').splitlines() if l.startswith('  VIOLATED') or l.startswith('  UNDECIDED')}
    pool.put(wt0)
    print('baseline (known findings on the unchanged tree):', sorted(baseline), flush=True)

def items():
    d = 'refactors' if mode == 'refactors' else 'seeded'
    for p in sorted(glob.glob('/verif/%s/*/patch.diff' % d)):
        name = os.path.basename(os.path.dirname(p))
        if prefixes and not any(name.startswith(x) for x in prefixes):
            continue
        yield name, p

def run(item):
    name, patch = item
    wt = pool.get()
    try:
        a = subprocess.run(['git', '-C', wt, 'apply', patch], stdout=subprocess.PIPE, stderr=subprocess.STDOUT)
        if a.returncode != 0:
            return name, 'APPLY-FAIL', []
        if mode == 'refactors':
            cmd = [binp, '-repo', wt, '-verif', '/verif', '-rules', 'all', '-no-evidence']
        else:
            prop = json.load(open(os.path.dirname(patch) + '/meta.json'))['property']
            cmd = [binp, '-repo', wt, '-verif', '/verif', '-property', prop, '-no-evidence']
        p = subprocess.run(cmd, stdout=subprocess.PIPE, stderr=subprocess.STDOUT, env=env, timeout=1800)
        out = p.stdout.decode(errors='replace')
        keys = sorted({l.split()[1] for l in out.splitlines() if l.startswith('  VIOLATED') or l.startswith('  UNDECIDED')} - baseline)
        if 'cannot analyse' in out:
            keys.append('cannot-analyse')
        if mode == 'refactors':
            return name, ('alarm' if keys else 'silent'), keys
        return name, ('alarm' if keys or 'VIOLATION' in out else 'silent'), keys
    finally:
        subprocess.run(['git', '-C', wt, 'checkout', '-q', '--', '.'])
        subprocess.run(['git', '-C', wt, 'clean', '-fdq'])
        pool.put(wt)

res = []
try:
    with cf.ThreadPoolExecutor(jobs) as ex:
        for name, st, keys in ex.map(run, list(items())):
            res.append((name, st, keys))
            if mode == 'refactors':
                if st == 'APPLY-FAIL':
                    print('APPLY-FAIL %s (patch no longer applies to /repo HEAD)' % name, flush=True)
                elif st != 'silent':
                    print('FALSE-ALARM %s: %s' % (name, '; '.join(keys[:5])), flush=True)
            else:
                det = 'detected: ' + ';'.join(keys[:5]) if st == 'alarm' else ('patch does not apply' if st == 'APPLY-FAIL' else 'MISSED')
                print('%s: %s' % (name, det[:200]), flush=True)
                if write_meta:
                    mp = '/verif/seeded/%s/meta.json' % name
                    m = json.load(open(mp)); m['detected_by'] = det; json.dump(m, open(mp, 'w'), indent=1)
finally:
    for k in range(jobs):
        subprocess.run(['git', '-C', '/repo', 'worktree', 'remove', '--force', os.path.join(base, 'wt%d' % k)])
    shutil.rmtree(base, ignore_errors=True)
    subprocess.run(['git', '-C', '/repo', 'worktree', 'prune'])
import collections
c = collections.Counter(st for _, st, _ in res)
print(dict(c))
