#!/bin/bash
# usage: tools/run.sh <property> <tier>; rebuilds the checker if sources are newer, then analyses /repo's working tree.
cd "$(dirname "$0")/.."
if [ ! -x bin/qfcheck ] || [ -n "$(find qfcheck/cmd -newer bin/qfcheck -name '*.go' 2>/dev/null | head -1)" ]; then
  tools/setup.sh || { echo "qfcheck: build failed"; exit 2; }
fi
export GOFLAGS=-mod=mod GOPROXY=off GOSUMDB=off GOTOOLCHAIN=local
unset GOWORK
exec bin/qfcheck -property "$1" -tier "${2:-quick}" -repo /repo -verif /verif
