#!/bin/bash
# usage: seed_round2.sh <PROP> [extra go test flag]  -- confirms /tmp/seed/out_<PROP>/{1,2}, stores as <PROP>-3/-4, evaluates
p=$1; flag=${2:-}
for n in 1 2; do
  [ -d /tmp/seed/out_$p/$n ] || continue
  r=$(/verif/tools/confirm_seed.sh /tmp/seed/out_$p/$n ${p}_r2_$n $flag 2>&1 | tail -1)
  echo "$r"
  if echo "$r" | grep -q "suite_with_patch=pass demo_with_patch=fails demo_clean=pass"; then
    /verif/tools/seed_store.py /tmp/seed/out_$p/$n $p-$((n+2)) "${r#*: } (round 2)"
    /verif/tools/seed_eval.sh $p-$((n+2))
  fi
done
