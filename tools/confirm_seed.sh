#!/bin/bash
# usage: confirm_seed.sh <dir with patch.diff demo_test.go meta.json> <name>
# Confirms in a scratch worktree of /repo HEAD: patch applies, builds, suite passes with it, demo fails with it, demo passes without.
set -u
src="$1"; name="$2"; RACE="${3:-}"
export GOFLAGS=-mod=mod GOPROXY=off GOSUMDB=off GOTOOLCHAIN=local; unset GOWORK
wt=/tmp/confirm_$name
rm -rf "$wt"; git -C /repo worktree prune
git -C /repo worktree add --detach "$wt" HEAD -q || exit 9
cleanup(){ git -C /repo worktree remove --force "$wt" 2>/dev/null; }
trap cleanup EXIT
cd "$wt"
ddir=$(jq -r '.demo_dir // "."' "$src/meta.json"); [ "$ddir" = "" ] && ddir=.
res="applies=no"
if git apply --check "$src/patch.diff" 2>/dev/null; then
  # demo on clean tree
  cp "$src/demo_test.go" "$ddir/zz_demo_test.go"
  if (cd "$ddir" && go test -vet=off -count=1 -run 'Test' . >/tmp/confirm_$name.clean.log 2>&1); then clean=pass; else clean=FAIL; fi
  rm -f "$ddir/zz_demo_test.go"
  git apply "$src/patch.diff"
  if go build ./... >/dev/null 2>&1; then build=ok; else build=FAIL; fi
  # SKIP_SUITE=1: the patch is a mutant that the mutation run already showed to pass the whole suite
  if [ "${SKIP_SUITE:-}" = 1 ]; then ok=0; else
  ok=1; for i in 1 2; do go test -vet=off -count=1 ./... >/tmp/confirm_$name.suite.log 2>&1 && { ok=0; break; }; done; fi
  [ $ok = 0 ] && suite=pass || suite=FAIL
  cp "$src/demo_test.go" "$ddir/zz_demo_test.go"
  # run only the demo's tests
  tests=$(grep -o '^func Test[A-Za-z0-9_]*' "$src/demo_test.go" | sed 's/func //' | paste -sd'|')
  if (cd "$ddir" && go test $RACE -vet=off -count=1 -run "^($tests)\$" . >/tmp/confirm_$name.mut.log 2>&1); then mut=PASS_unexpected; else mut=fails; fi
  if (cd "$ddir" && git checkout -q -- . && cp "$src/demo_test.go" zz_demo_test.go && go test $RACE -vet=off -count=1 -run "^($tests)\$" . >/tmp/confirm_$name.clean2.log 2>&1); then clean2=pass; else clean2=FAIL; fi
  res="applies=yes build=$build suite_with_patch=$suite demo_with_patch=$mut demo_clean=$clean2"
fi
echo "$name: $res"
