#!/usr/bin/env python3
# Mirrors the comparisons of one source file at a time (gofmt -r: a == b -> b == a, a != b -> b != a, a < b -> b > a) on scratch
# worktrees of /repo HEAD and runs every rule: the mirrored program means the same, so every report is a false alarm.
# usage: tools/commute_sweep.py   (needs /tmp/comsweep to be absent or empty; about 4 minutes with 10 workers)
import re,os,subprocess,glob,queue,concurrent.futures as cf,json,sys
env=dict(os.environ,GOFLAGS='-mod=mod',GOPROXY='off',GOSUMDB='off',GOTOOLCHAIN='local'); env.pop('GOWORK',None)
dirs=['.','filter','config/eval','function','internal/index','internal/grouper','internal/icolumn','internal/fcolumn','internal/bcolumn','internal/scolumn','internal/ecolumn','internal/strings','internal/io','internal/io/sql','internal/fastcsv','internal/sort','internal/math/float']
rules={'eq':['a == b -> b == a','a != b -> b != a'],'ord':['a < b -> b > a']}
# note: gofmt applies a rule once per node; applying '<' -> '>' rewrites only original '<' nodes
files=[]
for d in dirs:
    for f in glob.glob('/repo/%s/*.go'%d):
        if f.endswith('_test.go'): continue
        files.append(os.path.relpath(f,'/repo'))
items=[(f,k) for f in sorted(files) for k in rules]
print(len(items),'variants')
jobs=10
pool=queue.Queue()
for k in range(jobs):
    wt='/tmp/comsweep/wt%d'%k
    subprocess.run(['git','-C','/repo','worktree','add','--detach',wt,'HEAD','-q'],check=True)
    pool.put(wt)
def run(it):
    f,k=it
    wt=pool.get()
    try:
        for r in rules[k]:
            subprocess.run(['gofmt','-r',r,'-w',os.path.join(wt,f)],env=env,stdout=subprocess.DEVNULL,stderr=subprocess.DEVNULL)
        if subprocess.run(['git','-C',wt,'diff','--quiet']).returncode==0:
            return f,k,'nochange',[]
        if subprocess.run(['go','build','./...'],cwd=wt,env=env,stdout=subprocess.DEVNULL,stderr=subprocess.DEVNULL).returncode!=0:
            return f,k,'nobuild',[]
        p=subprocess.run(['/verif/bin/qfcheck','-repo',wt,'-verif','/verif','-rules','all','-no-evidence'],stdout=subprocess.PIPE,stderr=subprocess.STDOUT,env=env)
        keys=sorted({l.split()[1] for l in p.stdout.decode(errors='replace').splitlines() if (l.startswith('  VIOLATED') or l.startswith('  UNDECIDED')) and 'R129|zero' not in l})
        return f,k,('alarm' if keys else 'silent'),keys
    finally:
        subprocess.run(['git','-C',wt,'checkout','-q','--','.'])
        pool.put(wt)
res=[]
with cf.ThreadPoolExecutor(jobs) as ex:
    for r in ex.map(run,items):
        res.append(r)
        if r[2]=='alarm': print('ALARM',r[0],r[1],len(r[3]),sorted({k.split('|')[0] for k in r[3]}),flush=True)
import collections
print(collections.Counter(r[2] for r in res))
json.dump(res,open('/tmp/comsweep/res.json','w'))
for k in range(jobs):
    subprocess.run(['git','-C','/repo','worktree','remove','--force','/tmp/comsweep/wt%d'%k])
