import json,sys
V=[]
def v(id,prop,file,old,new,expect,kind="break",note=""):
    V.append(dict(id=id,property=prop,file=file,old=old,new=new,expect=expect,kind=kind,note=note))
# C01
v("c01-sort-nocopy","C01","qframe.go","newDf := qf.withIndex(qf.index.Copy())","newDf := qf.withIndex(qf.index)","R1","break","Sort sorts the receiver's index in place")
v("c01-setcolumn-share","C01","qframe.go","	newF.columns = make([]namedColumn, newColCount)\n","	newF.columns = qf.columns[:newColCount:newColCount]\n","R1","break","overwrite branch writes into the shared column slice")
v("c01-apply1-inplace","C01","internal/icolumn/column_gen.go","	case func(int) int:\n		result := make([]int, len(c.data))","	case func(int) int:\n		result := c.data","R1","break","Apply1 writes into the source column")
v("c01-select-rename-local","C01","qframe.go","	newColumnsByName := make(map[string]namedColumn, len(columns))\n	newColumns := make([]namedColumn, len(columns))\n	for i, col := range columns {\n		if _, ok := newColumnsByName[col]; ok {\n			return qf.withErr(qerrors.New(\"Select\", `column \"%s\" selected more than once`, col))\n		}\n\n		s := qf.columnsByName[col]\n		s.pos = i\n		newColumnsByName[col] = s\n		newColumns[i] = s\n	}\n\n	return QFrame{columns: newColumns, columnsByName: newColumnsByName, index: qf.index}","	byName := make(map[string]namedColumn, len(columns))\n	cols := make([]namedColumn, len(columns))\n	for i, col := range columns {\n		if _, ok := byName[col]; ok {\n			return qf.withErr(qerrors.New(\"Select\", `column \"%s\" selected more than once`, col))\n		}\n\n		s := qf.columnsByName[col]\n		s.pos = i\n		byName[col] = s\n		cols[i] = s\n	}\n\n	return QFrame{columns: cols, columnsByName: byName, index: qf.index}","","benign","rename locals")
# C02
v("c02-kernel-noguard","C02","internal/icolumn/filters_gen.go","func lt(index index.Int, column []int, comp int, bIndex index.Bool) {\n	for i, x := range bIndex {\n		if !x {\n			bIndex[i] = column[index[i]] < comp\n		}\n	}\n}","func lt(index index.Int, column []int, comp int, bIndex index.Bool) {\n	for i := range bIndex {\n		bIndex[i] = column[index[i]] < comp\n	}\n}","R3")
v("c02-kernel-physical","C02","internal/fcolumn/filters_gen.go","func gte(index index.Int, column []float64, comp float64, bIndex index.Bool) {\n	for i, x := range bIndex {\n		if !x {\n			bIndex[i] = column[index[i]] >= comp","func gte(index index.Int, column []float64, comp float64, bIndex index.Bool) {\n	for i, x := range bIndex {\n		if !x {\n			bIndex[i] = column[i] >= comp","R6")
v("c02-lte-is-lt","C02","internal/ecolumn/filters_gen.go","bIndex[i] = !enum.isNull() && enum.compVal() <= comparatee.compVal()","bIndex[i] = !enum.isNull() && enum.compVal() < comparatee.compVal()","R4")
v("c02-swap-operands","C02","internal/scolumn/filters_gen.go","func gt(index index.Int, c Column, comparatee string, bIndex index.Bool) error {\n	for i, x := range bIndex {\n		if !x {\n			s, isNull := c.stringAt(index[i])\n			bIndex[i] = !isNull && s > comparatee","func gt(index index.Int, c Column, comparatee string, bIndex index.Bool) error {\n	for i, x := range bIndex {\n		if !x {\n			s, isNull := c.stringAt(index[i])\n			bIndex[i] = !isNull && comparatee > s","R4")
v("c02-table-wrong-kernel","C02","internal/fcolumn/filters.go","	filter.Gt:  gt,\n	filter.Gte: gte,\n	filter.Lt:  lt,\n	filter.Lte: lte,\n	filter.Eq:  eq,\n	filter.Neq: neq,\n}\n\nvar filterFuncs2","	filter.Gt:  gte,\n	filter.Gte: gte,\n	filter.Lt:  lt,\n	filter.Lte: lte,\n	filter.Eq:  eq,\n	filter.Neq: neq,\n}\n\nvar filterFuncs2","R4")
v("c02-inverse-eq-eq","C02","filter/filter.go","	Eq:        Neq,\n	Lt:        Gte,","	Eq:        Eq,\n	Lt:        Gte,","R5")
v("c02-filter-append-twice","C02","internal/index/index.go","			result = append(result, ix[i])\n","			result = append(result, ix[i])\n			result = append(result, ix[i])\n","R8")
v("c02-other-row","C02","internal/icolumn/filters_gen.go","func lt2(index index.Int, column []int, compCol []int, bIndex index.Bool) {\n	for i, x := range bIndex {\n		if !x {\n			pos := index[i]\n			bIndex[i] = column[pos] < compCol[pos]","func lt2(index index.Int, column []int, compCol []int, bIndex index.Bool) {\n	for i, x := range bIndex {\n		if !x {\n			pos := index[i]\n			bIndex[i] = column[pos] < compCol[index[0]]","R42")
v("c02-benign-hoist","C02","internal/icolumn/filters_gen.go","func gt(index index.Int, column []int, comp int, bIndex index.Bool) {\n	for i, x := range bIndex {\n		if !x {\n			bIndex[i] = column[index[i]] > comp\n		}\n	}\n}","func gt(index index.Int, column []int, comp int, bIndex index.Bool) {\n	for i, x := range bIndex {\n		if x {\n			continue\n		}\n		pos := index[i]\n		bIndex[i] = column[pos] > comp\n	}\n}","","benign","hoist position, rewrite guard as continue")
# C03
v("c03-swap-dup","C03","internal/sort/sorter.go","	s.index[i], s.index[j] = s.index[j], s.index[i]","	s.index[i] = s.index[j]","R9")
v("c03-reverse-half","C03","internal/scolumn/column.go","		result.ltValue, result.nullLtValue, result.gtValue, result.nullGtValue =\n			result.gtValue, result.nullGtValue, result.ltValue, result.nullLtValue","		result.ltValue, result.gtValue = result.gtValue, result.ltValue","R10")
v("c03-compare-wrong-entry","C03","internal/fcolumn/column.go","	if x < y {\n		return c.ltValue\n	}","	if x < y {\n		return c.gtValue\n	}","R10")
v("c03-null-entry","C03","internal/ecolumn/column.go","		if !y.isNull() {\n			return c.nullLtValue\n		}","		if !y.isNull() {\n			return c.nullGtValue\n		}","R10")
v("c03-less-notequal-terminal","C03","internal/sort/sorter.go","		if r == column.GreaterThan {\n			return false\n		}","		if r != column.Equal {\n			return false\n		}","R10")
v("c03-heap-abs-lo","C03","internal/sort/sorter.go","		siftDown(data, lo, i, first)","		siftDown(data, lo+a, i, first)","R120","break","absolute index passed as heap coordinate: right only for ranges starting at 0")
v("c03-ninther-sum","C03","internal/sort/sorter.go","		s := (hi - lo) / 8","		s := (hi + lo) / 8","R120","break","step of the ninther depends on where the range lies")
v("c03-pivot-mid-offset","C03","internal/sort/sorter.go","	m := int(uint(lo+hi) >> 1) // Written like this to avoid integer overflow.","	m := lo + (hi-lo)/2","","benign","midpoint written as lo + half the length")
# C04/C05
v("c04-hash-only","C04","internal/grouper/grouper.go","if !e.occupied || e.hash == hashSum && equals(t.comparables, i, e.firstPos) {","if !e.occupied || e.hash == hashSum {","R11")
v("c04-grow-oldmask","C04","internal/grouper/grouper.go","	bitMask := newLen - 1\n","	bitMask := uint32(len(t.entries)) - 1\n","R38")
v("c04-fhash-raw","C04","internal/fcolumn/column.go","	if f == 0 {\n		// 0.0 and -0.0 compare equal, make sure they hash equal.\n		f = 0\n	}\n","","R12")
v("c04-subset-backwards","C04","internal/icolumn/column_gen.go","	data := (*buf)[:0]\n	for _, ix := range index {\n		data = append(data, c.data[ix])\n	}","	data := (*buf)[:0]\n	for i := range index {\n		data = append(data, c.data[index[len(index)-1-i]])\n	}","R8")
v("c04-agg-pos","C04","grouper.go","		col.pos = len(newColumns)\n","","R13")
v("c05-distinct-firstrow","C05","internal/grouper/grouper.go","		dstEntry.firstPos = i\n","		dstEntry.firstPos = uint32(len(t.entries))\n","R7")
# C06
v("c06-alloc-by-index","C06","internal/fcolumn/column_gen.go","	case func(float64) float64:\n		result := make([]float64, len(c.data))","	case func(float64) float64:\n		result := make([]float64, len(ix))","R42")
v("c06-apply2-otherrow","C06","internal/icolumn/column_gen.go","		result[i] = t(c.data[i], ss2.data[i])","		result[i] = t(c.data[i], ss2.data[ix[0]])","R42")
v("c06-select-nopos","C06","qframe.go","		s := qf.columnsByName[col]\n		s.pos = i\n","		s := qf.columnsByName[col]\n","R13")
v("c06-norestore","C06","qframe.go","	newQf = newQf.Apply(instructions...)\n	newQf.index = qf.index\n","	newQf = newQf.Apply(instructions...)\n","R43")
# C07
v("c07-nodrop-const","C07","expression.go","	result = result.Drop(string(constColName))\n","","R14")
v("c07-swap-names","C07","expression.go","	ccE, _ := newColColExpr([]interface{}{e.operation, lColName, rColName})","	ccE, _ := newColColExpr([]interface{}{e.operation, rColName, lColName})","R15")
v("c07-forget-flip","C07","expression.go","	if e.constFirst {\n		args = []interface{}{e.operation, constColName, e.srcCol}\n	}\n","","R15")
# C08
v("c08-slice-noend","C08","qframe.go","	if end > qf.Len() {\n		return qf.withErr(qerrors.New(\"Slice\", \"end must not be greater than qframe length\"))\n	}\n","","R18")
v("c08-setcolumn-nocheck","C08","qframe.go","	if err := qfstrings.CheckName(name); err != nil {\n		return qf.withErr(qerrors.Propagate(\"setColumn\", err))\n	}\n","","R17")
v("c08-pointer-shift","C08","internal/strings/pointer.go","	return int(p>>28) & 0x7FFFFFFFF","	return int(p>>27) & 0x7FFFFFFFF","R19")
# C09
v("c09-view-physical","C09","internal/icolumn/column_gen.go","	return v.data[v.index[i]]","	return v.data[i]","R6")
v("c09-tocsv-logical","C09","qframe.go","			row = append(row, col.StringAt(qf.index[i], \"\"))","			row = append(row, col.StringAt(uint32(i), \"\"))","R6")
v("c09-equals-wrong-index","C09","internal/fcolumn/column.go","		v1, v2 := c.data[x], otherI.data[otherIndex[ix]]","		v1, v2 := c.data[x], otherI.data[index[ix]]","R44")
# C10
v("c10-sort-noguard","C10","qframe.go","func (qf QFrame) Sort(orders ...Order) QFrame {\n	if qf.Err != nil {\n		return qf\n	}\n","func (qf QFrame) Sort(orders ...Order) QFrame {\n","R20")
v("c10-len-zero","C10","qframe.go","	if qf.Err != nil {\n		return -1\n	}","	if qf.Err != nil {\n		return 0\n	}","R20")
v("c10-table-nocommaok","C10","internal/fcolumn/column.go","		compFunc, ok := filterFuncs1[comparator]\n		if !ok {\n			return qerrors.New(\"filter float\", \"invalid comparison operator to single argument filter, %v\", comparator)\n		}\n		compFunc(index, c.data, t, bIndex)","		compFunc := filterFuncs1[comparator]\n		compFunc(index, c.data, t, bIndex)","R21")
# C11
v("c11-global-buf","C11","internal/strings/match.go","func (m *CIExactMatcher) Matches(s string) bool {\n	return ToUpper(&m.buf, s) == m.matchString\n}","var sharedBuf []byte\n\nfunc (m *CIExactMatcher) Matches(s string) bool {\n	return ToUpper(&sharedBuf, s) == m.matchString\n}","R2")
# C12/C15
v("c15-more-nil","C15","internal/fastcsv/csv.go","		if n > 0 || err != nil {\n			return err\n		}","		if n > 0 || err != nil {\n			_ = err\n			return nil\n		}","R24")
v("c15-tojson-dropwrite","C15","qframe.go","		_, err = writer.Write(jsonBuf)\n		if err != nil {\n			return err\n		}\n	}\n\n	_, err = writer.Write([]byte{']'})","		writer.Write(jsonBuf)\n	}\n\n	_, err = writer.Write([]byte{']'})","R31")
v("c15-csv-noerr","C15","internal/io/csv.go","	if r.Err() != nil {\n		return nil, nil, qerrors.Propagate(\"ReadCSV read body\", r.Err())\n	}\n\n	if conf.MissingColumnNameAlias","	if conf.MissingColumnNameAlias","R29")
v("c15-flush-noerr","C15","qframe.go","	w.Flush()\n	return w.Error()","	w.Flush()\n	return nil","R30")
v("c12-infer-order","C12","internal/io/csv.go","	if dataType == types.Float || dataType == types.None {\n		err = nil","	if dataType == types.Float {\n		err = nil","R45")
# C13
v("c13-float-prec","C13","internal/fcolumn/column.go","	return strconv.FormatFloat(c.data[i], 'f', -1, 64)","	return strconv.FormatFloat(c.data[i], 'f', 6, 64)","R26")
# C14
v("c14-names-raw","C14","qframe.go","		colByteNames[i] = qfstrings.AppendQuotedString(nil, col.name)","		colByteNames[i] = qfstrings.QuotedBytes(col.name)","R27")
v("c14-escape-del","C14","internal/strings/serialize.go","		if c != '\\\\' && c != '\"' && c >= 0x20 && c < utf8.RuneSelf {","		if c != '\\\\' && c != '\"' && c > 0x20 && c < utf8.RuneSelf {","R28")
v("c14-escape-ctrl","C14","internal/strings/serialize.go","				buf = append(buf, chars[c>>4])\n				buf = append(buf, chars[c&0xf])","				buf = append(buf, chars[c&0xf])\n				buf = append(buf, chars[c>>4])","R28")
# C16
v("c16-table-entry","C16","internal/ryu/tables.go","	{0, 90071992547409920},","	{0, 90071992547409921},","R32")
# C17
v("c17-card-off","C17","internal/ecolumn/column.go","	if len(f.column.values) >= maxCardinality {\n		return qerrors.New(\"append enum val\"","	if len(f.column.values) > maxCardinality {\n		return qerrors.New(\"append enum val\"","R34")
v("c17-nostrict-filter","C17","internal/ecolumn/column.go","			if c.strict {\n				return qerrors.New(\"filter enum\", \"Unknown enum value in filter argument: %s\", comp)\n			}\n","","R46")
v("c17-bitset-mask","C17","internal/ecolumn/bitset.go","	s[val>>6] |= 1 << (val & 0x3F)","	s[val>>6] |= 1 << (val & 0x1F)","R19")
# C18
v("c18-ilike-cs","C18","internal/ecolumn/filters.go","func ilike(comp string, values []string) (*bitset, error) {\n	return filterLike(comp, values, false)","func ilike(comp string, values []string) (*bitset, error) {\n	return filterLike(comp, values, true)","R35")
v("c18-prefix-suffix","C18","internal/strings/match.go","		if fuzzyStart {\n			return &CISuffixMatcher{matchString: trimPercent(comparatee), buf: buf}, nil\n		}","		if fuzzyStart {\n			return &CIPrefixMatcher{matchString: trimPercent(comparatee), buf: buf}, nil\n		}","R35")
v("c18-runeself","C18","internal/strings/convert.go","			if r < utf8.RuneSelf {","			if r <= utf8.RuneSelf {","R33")
# C19
v("c19-nobuilder","C19","internal/io/sql/types.go","	case ecolumn.Column:","	case *ecolumn.Column:","R36")
v("c19-rows-err","C19","internal/io/sql/reader.go","	if err := rows.Err(); err != nil {\n		return nil, colNames, qerrors.New(\"ReadSQL Rows\", err.Error())\n	}\n","","R29")

# ---- positive examples for the clauses added after the third mutation run (each must be reported by the named rule) ----
v("m3-view-ok-untested","C10","qframe_gen.go","	namedColumn, ok := qf.columnsByName[colName]\n	if !ok {\n		return IntView{}, qerrors.New(\"IntView\", \"unknown column: %s\", colName)\n	}","	namedColumn, ok := qf.columnsByName[colName]\n	if !ok {\n	}","R84","break","emptied `if !ok` body: the ok result guards nothing")
v("m3-view-wrongtype-nil","C10","qframe_gen.go","		return IntView{}, qerrors.New(\n			\"IntView\",\n			\"invalid column type, expected: %s, was: %s\", \"int\", namedColumn.DataType())","		return IntView{}, nil","R84","break","failed assertion returns a nil error")
v("m3-apply1-next-slot","C06","internal/icolumn/column_gen.go","	case func(int) float64:\n		result := make([]float64, len(c.data))\n		for _, i := range ix {\n			result[i] = t(c.data[i])","	case func(int) float64:\n		result := make([]float64, len(c.data))\n		for _, i := range ix {\n			result[i+1] = t(c.data[i])","R42","break","result stored beside its row")
v("m3-tocsv-errguard","C10","qframe.go","	conf := csv.NewToConfig(confFuncs)\n	if qf.Err != nil {\n		return qerrors.Propagate(\"ToCSV\", qf.Err)\n	}","	conf := csv.NewToConfig(confFuncs)","R20","break","writer without the sticky-error guard")
v("m3-filteredapply-errguard","C06","qframe.go","	filteredQf := qf.Filter(clause)\n	if filteredQf.Err != nil {\n		return filteredQf\n	}","	filteredQf := qf.Filter(clause)","R137","break","index of a failed Filter used without looking at Err")
v("m3-aggregate-nil-nil","C10","internal/fcolumn/column_gen.go","			return nil, qerrors.New(c.fnName(\"Aggregate\"), \"aggregation function %c is not defined for column\", fn)","			return nil, nil","R138","break","neither a column nor an error")
v("m3-readcsv-swallow","C15","internal/io/csv.go","	if r.Err() != nil {\n		return nil, nil, qerrors.Propagate(\"ReadCSV read body\", r.Err())\n	}\n\n	if conf.MissingColumnNameAlias","	if r.Err() != nil {\n		return nil, nil, nil\n	}\n\n	if conf.MissingColumnNameAlias","R138","break","failure branch returns a nil error")
v("m3-ifslice-offset","C02","internal/strings/convert.go","		result[i] = s\n	}\n\n	return result\n}","		result[i+1] = s\n	}\n\n	return result\n}","R139","break","key+1 into a slice as long as the ranged one")
v("m3-lens-nil","C07","function/string.go","	if s == nil {\n		return 0\n	}\n\n	return len(*s)","	return len(*s)","R140","break","built-in dereferences a null cell")
v("m3-constexpr-nobool","C07","expression.go","	case int, float64, bool, string, *string:","	case int, float64, string, *string:","R141","break","bool constants no longer recognised")
v("m3-ctx-swap-str-int","C07","config/eval/context.go","					\"str\": function.StrF,\n					\"int\": function.IntF,","					\"str\": function.IntF,\n					\"int\": function.StrF,","R114","break","neighbouring table values swapped")
v("m3-ctx-upper-lower","C07","config/eval/context.go","					\"upper\": function.UpperS,\n					\"lower\": function.LowerS,","					\"upper\": function.LowerS,\n					\"lower\": function.UpperS,","R114","break","upper and lower swapped")
v("m3-setfunc-dropcase","C07","config/eval/context.go","	case func(int) int, func(int) bool, func(int) float64, func(int) *string:","	case func(int) int, func(int) bool, func(int) *string:","R103","break","an executable signature can no longer be registered")

v("m6-int-compare-narrowed","C03","internal/icolumn/column.go","func (c Comparable) Compare(i, j uint32) column.CompareResult {\n	x, y := c.data[i], c.data[j]","func (c Comparable) Compare(i, j uint32) column.CompareResult {\n	x, y := int32(c.data[i]), int32(c.data[j])","R148","break","cells compared through a 32-bit copy")
v("m6-hash-size-dependent","C05","internal/grouper/grouper.go","	return uint32(hashVal)\n}","	return uint32(hashVal) ^ uint32(len(t.entries))\n}","R99","break","the stored hash depends on the table size")
v("m6-like-break","C17","internal/ecolumn/filters.go","		if matcher.Matches(v) {\n			bset.set(enumVal(i))\n		}","		if matcher.Matches(v) {\n			bset.set(enumVal(i))\n			break\n		}","R145","break","first hit ends the collection of matching values")

# ---- benign refactors: must stay silent ----
v("b-kernel-index-load","C02","internal/fcolumn/filters_gen.go","func lt(index index.Int, column []float64, comp float64, bIndex index.Bool) {\n	for i, x := range bIndex {\n		if !x {\n			bIndex[i] = column[index[i]] < comp\n		}\n	}\n}","func lt(index index.Int, column []float64, comp float64, bIndex index.Bool) {\n	for i := range bIndex {\n		if bIndex[i] {\n			continue\n		}\n		bIndex[i] = column[index[i]] < comp\n	}\n}","","benign","load the accumulator by index, guard as continue")
v("b-filter-prealloc","C02","internal/index/index.go","	result := make(Int, 0, count)\n	for i, b := range bIx {\n		if b {\n			result = append(result, ix[i])\n		}\n	}\n\n	return result","	result := make(Int, count)\n	n := 0\n	for i, b := range bIx {\n		if b {\n			result[n] = ix[i]\n			n++\n		}\n	}\n\n	return result","","benign","preallocate and fill by counter")
v("b-sort-localcopy","C03","qframe.go","	newDf := qf.withIndex(qf.index.Copy())\n	sorter := qfsort.New(newDf.index, comparables)\n	sorter.Sort()\n	return newDf","	newIx := qf.index.Copy()\n	sorter := qfsort.New(newIx, comparables)\n	sorter.Sort()\n	return qf.withIndex(newIx)","","benign","copy the index into a local first")
v("b-sort-localcopy-c01","C01","qframe.go","	newDf := qf.withIndex(qf.index.Copy())\n	sorter := qfsort.New(newDf.index, comparables)\n	sorter.Sort()\n	return newDf","	newIx := qf.index.Copy()\n	sorter := qfsort.New(newIx, comparables)\n	sorter.Sort()\n	return qf.withIndex(newIx)","","benign","copy the index into a local first")
v("b-setcolumn-append-fresh","C01","qframe.go","	newF.columns = make([]namedColumn, newColCount)\n	newF.columnsByName = make(map[string]namedColumn, newColCount)\n	copy(newF.columns, qf.columns)\n","	newF.columns = make([]namedColumn, newColCount)\n	newF.columnsByName = make(map[string]namedColumn, newColCount)\n	for i := range qf.columns {\n		newF.columns[i] = qf.columns[i]\n	}\n","","benign","element-wise copy instead of copy()")
v("b-setcolumn-loopcopy-c06","C06","qframe.go","	newF.columns = make([]namedColumn, newColCount)\n	newF.columnsByName = make(map[string]namedColumn, newColCount)\n	copy(newF.columns, qf.columns)\n","	newF.columns = make([]namedColumn, newColCount)\n	newF.columnsByName = make(map[string]namedColumn, newColCount)\n	for i := range qf.columns {\n		newF.columns[i] = qf.columns[i]\n	}\n","","benign","element-wise copy instead of copy()")
v("b-eval-early-return","C07","qframe.go","	result = result.Copy(dstCol, colName)\n	if colName != dstCol && !qf.Contains(colName) {\n		result = result.Drop(colName)\n	}\n\n	return result","	result = result.Copy(dstCol, colName)\n	if colName == dstCol || qf.Contains(colName) {\n		return result\n	}\n\n	return result.Drop(colName)","","benign","invert the guard")
v("b-readcsv-single-err","C15","internal/io/csv.go","	if r.Err() != nil {\n		return nil, nil, qerrors.Propagate(\"ReadCSV read body\", r.Err())\n	}\n\n	if conf.MissingColumnNameAlias","	if err := r.Err(); err != nil {\n		return nil, nil, qerrors.Propagate(\"ReadCSV read body\", err)\n	}\n\n	if conf.MissingColumnNameAlias","","benign","call Err() once")
v("b-tocsv-explicit","C15","qframe.go","	w.Flush()\n	return w.Error()","	w.Flush()\n	if err := w.Error(); err != nil {\n		return err\n	}\n\n	return nil","","benign","explicit error test after Flush")
v("b-hash-plus-zero","C04","internal/fcolumn/column.go","	if f == 0 {\n		// 0.0 and -0.0 compare equal, make sure they hash equal.\n		f = 0\n	}\n","	// 0.0 and -0.0 compare equal, adding zero turns -0.0 into 0.0.\n	f = f + 0\n","","benign","normalise zero by adding 0")
v("b-new-negative-sentinel","C08","qframe.go","	firstLen, currentLen := 0, 0\n	for i, name := range config.ColumnOrder {","	firstLen, currentLen := -1, 0\n	for i, name := range config.ColumnOrder {","","benign","initialise differently (still assigned on i == 0)")
v("b-new-sentinel-minus1","C08","qframe.go","		if i == 0 {\n			firstLen = currentLen\n		}\n","		if firstLen < 0 || i == 0 {\n			firstLen = currentLen\n		}\n","","benign","negative sentinel is not a legal length")
v("b-mask-convert-first","C04","internal/grouper/grouper.go","	bitMask := uint64(len(t.entries) - 1)\n","	bitMask := uint64(len(t.entries)) - 1\n","","benign","convert before subtracting")
v("b-comparable-ifelse","C03","internal/ecolumn/column.go","	if nullLast {\n		result.nullLtValue, result.nullGtValue = result.nullGtValue, result.nullLtValue\n	}\n\n	if equalNull {\n		result.equalNullValue = column.Equal\n	}\n\n	return result\n}\n\nfunc (c Column) String() string {","	if nullLast {\n		tmp := result.nullLtValue\n		result.nullLtValue = result.nullGtValue\n		result.nullGtValue = tmp\n	}\n\n	result.equalNullValue = column.NotEqual\n	if equalNull {\n		result.equalNullValue = column.Equal\n	}\n\n	return result\n}\n\nfunc (c Column) String() string {","","benign","swap through a temporary, explicit default")
v("b-slice-switch","C08","qframe.go","	if start < 0 {\n		return qf.withErr(qerrors.New(\"Slice\", \"start must be non negative\"))\n	}\n\n	if start > end {\n		return qf.withErr(qerrors.New(\"Slice\", \"start must not be greater than end\"))\n	}\n\n	if end > qf.Len() {\n		return qf.withErr(qerrors.New(\"Slice\", \"end must not be greater than qframe length\"))\n	}\n","	switch {\n	case start < 0:\n		return qf.withErr(qerrors.New(\"Slice\", \"start must be non negative\"))\n	case start > end:\n		return qf.withErr(qerrors.New(\"Slice\", \"start must not be greater than end\"))\n	case end > qf.index.Len():\n		return qf.withErr(qerrors.New(\"Slice\", \"end must not be greater than qframe length\"))\n	}\n","","benign","switch form, Len of the index")
v("b-agg-indexed","C04","internal/icolumn/column_gen.go","	data := make([]int, 0, len(indices))\n	var buf []int\n	for _, ix := range indices {\n		subS := c.subsetWithBuf(ix, &buf)\n		data = append(data, actualFn(subS.data))\n	}","	data := make([]int, len(indices))\n	var buf []int\n	for i, ix := range indices {\n		subS := c.subsetWithBuf(ix, &buf)\n		data[i] = actualFn(subS.data)\n	}","","benign","preallocate the result and store by group number")
v("b-view-local","C09","internal/icolumn/column_gen.go","	return v.data[v.index[i]]","	pos := v.index[i]\n	return v.data[pos]","","benign","hoist the position")
v("b-tojson-index-loop","C14","qframe.go","	for i, ix := range qf.index {\n		jsonBuf = jsonBuf[:0]","	for i := 0; i < len(qf.index); i++ {\n		ix := qf.index[i]\n		jsonBuf = jsonBuf[:0]","","benign","classic counted loop over the index")


# ---- round 2 rules ----
v("c10-or-early-exit","C10","filter.go","			newQf := c.filter(qf)\n			filteredQf = orFrames(&qf, filteredQf, &newQf)\n		}\n	}\n","			newQf := c.filter(qf)\n			filteredQf = orFrames(&qf, filteredQf, &newQf)\n			if filteredQf.Len() == qf.Len() {\n				return *filteredQf\n			}\n		}\n	}\n","R52")
v("b-and-exit-on-error","C10","filter.go","	for _, c := range c.subClauses {\n		newQf := c.filter(*filteredQf)\n		filteredQf = &newQf\n	}\n","	for _, c := range c.subClauses {\n		newQf := c.filter(*filteredQf)\n		filteredQf = &newQf\n		if filteredQf.Err != nil {\n			return *filteredQf\n		}\n	}\n","","benign","stop at the first error (errors are sticky anyway)")
v("c06-reused-arg","C06","internal/scolumn/column.go","	case func(*string) *string:\n		result := make([]*string, len(c.pointers))\n		for _, i := range ix {\n			result[i] = t(stringToPtr(c.stringAt(i)))\n		}\n		return result, nil\n	case string:","	case func(*string) *string:\n		result := make([]*string, len(c.pointers))\n		var arg string\n		for _, i := range ix {\n			s, isNull := c.stringAt(i)\n			if isNull {\n				result[i] = t(nil)\n				continue\n			}\n			arg = s\n			result[i] = t(&arg)\n		}\n		return result, nil\n	case string:","R53")
v("b-arg-per-iteration","C06","internal/scolumn/column.go","	case func(*string) *string:\n		result := make([]*string, len(c.pointers))\n		for _, i := range ix {\n			result[i] = t(stringToPtr(c.stringAt(i)))\n		}\n		return result, nil\n	case string:","	case func(*string) *string:\n		result := make([]*string, len(c.pointers))\n		for _, i := range ix {\n			s, isNull := c.stringAt(i)\n			if isNull {\n				result[i] = t(nil)\n				continue\n			}\n			arg := s\n			result[i] = t(&arg)\n		}\n		return result, nil\n	case string:","","benign","a fresh variable per iteration")
v("c05-null-hardcoded","C05","qframe.go","	comparables := qf.comparables(columns, orders, config.GroupByNull)\n	newIx := grouper.Distinct(qf.index, comparables)","	comparables := qf.comparables(columns, orders, false)\n	newIx := grouper.Distinct(qf.index, comparables)","R55")
v("c08-select-shortcut","C08","qframe.go","	newColumnsByName := make(map[string]namedColumn, len(columns))\n	newColumns := make([]namedColumn, len(columns))\n	for i, col := range columns {","	if len(columns) == len(qf.columns) {\n		return qf\n	}\n\n	newColumnsByName := make(map[string]namedColumn, len(columns))\n	newColumns := make([]namedColumn, len(columns))\n	for i, col := range columns {","R51")
v("b-select-checked-shortcut","C08","qframe.go","	newColumnsByName := make(map[string]namedColumn, len(columns))\n	newColumns := make([]namedColumn, len(columns))\n	for i, col := range columns {","	same := len(columns) == len(qf.columns)\n	for i := 0; same && i < len(columns); i++ {\n		same = columns[i] == qf.columns[i].name\n	}\n	if same {\n		return qf\n	}\n\n	newColumnsByName := make(map[string]namedColumn, len(columns))\n	newColumns := make([]namedColumn, len(columns))\n	for i, col := range columns {","","benign","identity shortcut that actually compares the requested names in order")
v("c07-expr-inplace","C07","expression.go","	newArgs := make([]interface{}, len(args)-1)\n	newArgs[0] = newExpr([]interface{}{name, args[0], args[1]})\n	copy(newArgs[1:], args[2:])\n	return Expr(name, newArgs...)","	args[1] = newExpr([]interface{}{name, args[0], args[1]})\n	return Expr(name, args[1:]...)","R1x")


# ---- round 2b rules ----
v("c15-eof-overwrite","C15","internal/fastcsv/csv.go","		if r.fields.err == nil {\n			r.fields.err = io.EOF\n		}\n		return false","		r.fields.err = io.EOF\n		return false","R56")
v("c12-short-read-eof","C12","internal/fastcsv/csv.go","	c, err := r.r.Read(b)\n	if err == io.EOF && c > 0 {","	c, err := r.r.Read(b)\n	if c < len(b) {\n		r.isEof = true\n	}\n	if err == io.EOF && c > 0 {","R61")
v("c18-trim-cutset","C18","internal/strings/match.go","	s = strings.TrimPrefix(s, \"%\")\n	s = strings.TrimSuffix(s, \"%\")\n	return s","	return strings.Trim(s, \"%\")","R59")
v("c14-int-fastpath","C14","internal/fcolumn/column.go","	return ryu.AppendFloat64f(buf, value)","	if value == math.Trunc(value) && math.Abs(value) < 1e15 {\n		return strconv.AppendInt(buf, int64(value), 10)\n	}\n\n	return ryu.AppendFloat64f(buf, value)","R58")
v("c13-declared-254","C13","internal/ecolumn/column.go","	if len(values) > maxCardinality {\n		return nil, qerrors.New(\"New enum\"","	if len(values) >= maxCardinality {\n		return nil, qerrors.New(\"New enum\"","R34")
v("c19-stmt-cache","C19","internal/io/sql/stmt.go","func Insert(colNames []string, conf SQLConfig) string {\n	buf := bytes.NewBuffer(nil)","var lastStmt = map[string]string{}\n\nfunc Insert(colNames []string, conf SQLConfig) string {\n	if s, ok := lastStmt[conf.Table]; ok {\n		return s\n	}\n	defer func() { lastStmt[conf.Table] = \"\" }()\n	buf := bytes.NewBuffer(nil)","R1w")

json.dump({"variants":V},open('/verif/qfcheck/variants/catalogue.json','w'),indent=1)
import os
bad=0
for e in V:
    s=open('/repo/'+e['file']).read()
    n=s.count(e['old'])
    if n!=1:
        bad+=1; print("NOT-UNIQUE",e['id'],n)
print(len(V),"variants",bad,"bad")
