#!/bin/bash
# usage: refactor_eval.sh <patch.diff> : applies a behaviour-preserving patch to /repo, runs every property's quick check (no evidence), reverts.
patch="$1"
cd /repo || exit 3
git diff --quiet || { echo "repo dirty"; exit 3; }
git apply "$patch" || { echo "APPLY-FAIL $patch"; exit 3; }
trap 'git -C /repo checkout -- . ; git -C /repo clean -fdq -- . 2>/dev/null' EXIT
cd /verif
export GOFLAGS=-mod=mod GOPROXY=off GOSUMDB=off GOTOOLCHAIN=local; unset GOWORK
fail=0
for p in C01 C02 C03 C04 C05 C06 C07 C08 C09 C10 C11 C12 C13 C14 C15 C16 C17 C18 C19; do
  ( bin/qfcheck -property $p -no-evidence > /tmp/refeval_$p.log 2>&1 || echo "ALARM $p" ) &
done
wait
for p in C01 C02 C03 C04 C05 C06 C07 C08 C09 C10 C11 C12 C13 C14 C15 C16 C17 C18 C19; do
  if grep -q "^VIOLATION" /tmp/refeval_$p.log; then
    fail=1
    echo "FALSE-ALARM $p:"; grep -E "^  (VIOLATED|UNDECIDED)|cannot analyse" /tmp/refeval_$p.log | cut -c1-330 | head -4
  fi
done
rm -f /tmp/refeval_*.log
[ $fail = 0 ] && echo "silent: $patch"
