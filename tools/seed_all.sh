#!/bin/bash
# usage: seed_all.sh <seed id> : applies the seed to /repo, runs EVERY property's quick check, lists which properties/rules report; reverts.
sid=$1
cd /repo || exit 3
git diff --quiet || { echo "repo dirty"; exit 3; }
git apply /verif/seeded/$sid/patch.diff || { echo "APPLY-FAIL"; exit 3; }
trap 'git -C /repo checkout -- . ' EXIT
cd /verif
export GOFLAGS=-mod=mod GOPROXY=off GOSUMDB=off GOTOOLCHAIN=local; unset GOWORK
for p in C01 C02 C03 C04 C05 C06 C07 C08 C09 C10 C11 C12 C13 C14 C15 C16 C17 C18 C19; do
  ( bin/qfcheck -property $p -no-evidence > /tmp/seedall_$p.log 2>&1 ) &
done
wait
echo "== $sid"
for p in C01 C02 C03 C04 C05 C06 C07 C08 C09 C10 C11 C12 C13 C14 C15 C16 C17 C18 C19; do
  grep -E "^  (VIOLATED|UNDECIDED)" /tmp/seedall_$p.log | awk -v p=$p '{print p": "$2}' 
done | sort -u -t: -k2 | cut -c1-200 | head -12
rm -f /tmp/seedall_*.log
