#!/bin/bash
# usage: seed_round4.sh <PROP>  -- confirms /tmp/seed4/out_<PROP>/{1,2,3}, stores as <PROP>-7/-8/-9, evaluates the property's quick check (no rule is touched first)
p=$1
for n in 1 2 3; do
  [ -f /tmp/seed4/out_$p/$n/patch.diff ] || continue
  flag=""
  [ "$(jq -r '.needs_race // false' /tmp/seed4/out_$p/$n/meta.json)" = "true" ] && flag="-race"
  r=$(/verif/tools/confirm_seed.sh /tmp/seed4/out_$p/$n ${p}_r4_$n $flag 2>&1 | tail -1)
  echo "$r"
  if echo "$r" | grep -q "suite_with_patch=pass demo_with_patch=fails demo_clean=pass"; then
    /verif/tools/seed_store.py /tmp/seed4/out_$p/$n $p-$((n+6)) "${r#*: } (round 4)"
  fi
done
