#!/bin/bash
# usage: withpatch.sh <patch.diff> <command...>   -- applies the patch to /repo, runs the command, always reverts.
set -u
patch="$1"; shift
cd /repo || exit 3
if ! git diff --quiet; then echo "withpatch: /repo has local modifications, refusing" >&2; exit 3; fi
git apply "$patch" || { echo "withpatch: patch does not apply" >&2; exit 3; }
trap 'git -C /repo checkout -- . ' EXIT
cd /verif && "$@"
