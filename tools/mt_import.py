#!/usr/bin/env python3
# usage: mt_import.py <group>  -- turns the BREAKS verdicts of a mutant-triage sub-agent (/tmp/seed/mt/out_<G>/verdicts.jsonl)
# into candidate seeds, confirms each with tools/confirm_seed.sh (scratch worktree of /repo HEAD) and stores the
# confirmed ones as /verif/seeded/M<id>/.
import json, os, subprocess, sys, shutil, concurrent.futures as cf
g = sys.argv[1]
MUT = os.environ.get('MT_MUT', '/tmp/mut')      # directory of the mutant set
OUT = os.environ.get('MT_OUT', '/tmp/seed/mt')  # directory holding out_<group>/
PFX = os.environ.get('MT_PREFIX', 'M')          # seed name prefix (M = first operator set, N = second)
ms = {}
for l in open(MUT + '/index.jsonl'):
    m = json.loads(l); ms[m['id']] = m
vs = []
for l in open(f'{OUT}/out_{g}/verdicts.jsonl'):
    l = l.strip()
    if l:
        vs.append(json.loads(l))
def prep(v):
    i = int(v['id']); m = ms[i]
    d = f'/tmp/seed/mtseeds/{PFX}{i}'
    os.makedirs(d, exist_ok=True)
    demo = v.get('demo') or f'demo_{i}_test.go'
    src = os.path.join(f'{OUT}/out_{g}', os.path.basename(demo))
    if not os.path.exists(src):
        return None
    shutil.copy(src, d + '/demo_test.go')
    if os.environ.get('MT_PATCHES'):  # patches prepared against the checkout the mutants were generated from
        shutil.copy(os.path.join(os.environ['MT_PATCHES'], '%d.diff' % i), d + '/patch.diff')
    else:
        p = subprocess.run(['diff', '-u', '--label', 'a/' + m['file'], '--label', 'b/' + m['file'], '/repo/' + m['file'], f'{MUT}/{i}.go'],
                           stdout=subprocess.PIPE)
        open(d + '/patch.diff', 'wb').write(p.stdout)
    first = open(d + '/demo_test.go').readline()
    demo_dir = '.'
    json.dump({"property": v.get('property'), "summary": f"mechanical mutant {i}: {m['file']}:{m['line']} {m['op']} ({m['before'][:80]} -> {m['after'][:80]}). {v.get('why','')}",
               "needs": "", "files_changed": [m['file']], "demo_dir": demo_dir}, open(d + '/meta.json', 'w'), indent=1)
    return i
def confirm(i):
    d = f'/tmp/seed/mtseeds/{PFX}{i}'
    r = subprocess.run(['/verif/tools/confirm_seed.sh', d, f'mt{i}'], stdout=subprocess.PIPE, stderr=subprocess.STDOUT).stdout.decode().strip().splitlines()
    line = r[-1] if r else 'no output'
    ok = 'suite_with_patch=pass demo_with_patch=fails demo_clean=pass' in line
    if ok:
        subprocess.run(['/verif/tools/seed_store.py', d, f'{PFX}{i}', line.split(': ', 1)[-1] + ' (mutation run)'])
        mp = f'/verif/seeded/{PFX}{i}/meta.json'
        mm = json.load(open(mp))
        mm['source'] = 'mechanical mutant that survives the test suite (tools/mutate), judged property-breaking and given a failing demonstration by an independent sub-agent that saw only the property texts and a scratch worktree'
        json.dump(mm, open(mp, 'w'), indent=1)
    return i, ok, line
ids = [x for x in (prep(v) for v in vs if v.get('verdict', '').startswith('BREAKS')) if x]
with cf.ThreadPoolExecutor(int(os.environ.get('MT_JOBS', '5'))) as ex:
    for i, ok, line in ex.map(confirm, ids):
        print(i, 'stored' if ok else 'REJECTED', line.split(': ', 1)[-1])
