#!/bin/bash
# usage: seed_round5.sh <PROP>  -- confirms /tmp/seed6/out_<PROP>/{1,2,3}, stores as <PROP>-10/-11/-12
p=$1
for n in 1 2 3; do
  [ -f /tmp/seed6/out_$p/$n/patch.diff ] || continue
  flag=""
  [ "$(jq -r '.needs_race // false' /tmp/seed6/out_$p/$n/meta.json)" = "true" ] && flag="-race"
  r=$(/verif/tools/confirm_seed.sh /tmp/seed6/out_$p/$n ${p}_r6_$n $flag 2>&1 | tail -1)
  echo "$r"
  if echo "$r" | grep -q "suite_with_patch=pass demo_with_patch=fails demo_clean=pass"; then
    /verif/tools/seed_store.py /tmp/seed6/out_$p/$n $p-$((n+12)) "${r#*: } (round 6)"
  fi
done
