#!/usr/bin/env python3
# Regenerates the generated parts of DESIGN.md (rule catalogue, defect table, seed table) in place.
import json,glob,subprocess,re,os
os.chdir('/verif')
doc=open('DESIGN.md').read()
def between(doc,start,end,new):
    i=doc.index(start)+len(start); j=doc.index(end,i)
    return doc[:i]+new+doc[j:]
rules=subprocess.check_output(['bin/qfcheck','-list']).decode().splitlines()
rl=[l for l in rules if l.startswith('R')]
def fmt(l):
    m=re.match(r'^(R\w+)\s+(\S+)\s+floor=(\d+)\s+(.*)$',l)
    return "* **%s %s** (floor %s). %s"%(m.group(1),m.group(2),m.group(3),m.group(4))
doc=between(doc,"<!-- RULES-BEGIN -->\n","<!-- RULES-END -->","\n".join(fmt(l) for l in rl)+"\n")
rows=[]; nd=0; tot=0
for d in sorted(glob.glob('seeded/*/meta.json')):
    m=json.load(open(d)); tot+=1
    det=m['detected_by'] or ''
    rs=sorted(set(x.split('|')[0] for x in det.replace('detected: ','').split(';'))) if det.startswith('detected') else []
    if rs: nd+=1
    rows.append("| %s | %s | %s |"%(m['seed'],m['summary'][:170].replace('|','/').replace('\n',' '),', '.join(rs) if rs else '**not detected**'))
doc=between(doc,"<!-- SEEDS-BEGIN -->\n","<!-- SEEDS-END -->","| Seed | Change | Detected by |\n|---|---|---|\n"+"\n".join(rows)+"\n")
doc=re.sub(r'Result: \*\*\d+ of \d+ detected\*\*','Result: **%d of %d detected**'%(nd,tot),doc)
k=json.load(open('known_findings.json'))
drows=[]; krows=[]
for e in k['findings']:
    if e['status']=='known':
        krows.append("| %s | %s | `%s` | %s | %s |"%(e['defect'],', '.join(e['properties']),e['key'].replace('|','/'),e['what'].replace('|','/'),e.get('failing_input','').replace('|','/')))
        continue
    w=e['what'].split(' ',3)[3]
    drows.append("| %s | %s | %s | `%s` |"%(e['defect'],', '.join(e['properties']),w.replace('|','/'),e['commit']))
doc=between(doc,"<!-- DEFECTS-BEGIN -->\n","<!-- DEFECTS-END -->","| Id | Properties | What failed (rule) | Fix commit |\n|---|---|---|---|\n"+"\n".join(drows)+"\n")
doc=between(doc,"<!-- KNOWN-BEGIN -->\n","<!-- KNOWN-END -->","| Id | Properties | Obligation (key in known_findings.json) | What fails | Failing input |\n|---|---|---|---|---|\n"+"\n".join(krows)+"\n")
# per-property rule lists in section 4 headings
pr={}
for l in rules:
    m=re.match(r'^(C\d+): (.*)$',l)
    if m: pr[m.group(1)]=m.group(2)
def fix(m):
    pid=m.group(1); title=m.group(2)
    suffix='   (necessary conditions only)' if 'necessary conditions only' in m.group(0) else ''
    return "### %s %s  -  %s%s"%(pid,title,pr[pid],suffix)
doc=re.sub(r'### (C\d\d) (.*?)  -  [^\n]*',fix,doc)
open('DESIGN.md','w').write(doc)
print("rules",len(rl),"seeds",tot,"detected",nd)
