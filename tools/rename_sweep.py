#!/usr/bin/env python3
# Renames every unexported function / method of the packages in scope, one at a time (gofmt -r, scratch worktrees of /repo HEAD),
# and runs every rule on the result: a rename changes no behaviour, so every report is a false alarm of the analyzer.
# usage: tools/rename_sweep.py   (needs /tmp/rensweep to be absent or empty; about 8 minutes with 10 workers)
import re,os,subprocess,glob,queue,concurrent.futures as cf,json
env=dict(os.environ,GOFLAGS='-mod=mod',GOPROXY='off',GOSUMDB='off',GOTOOLCHAIN='local'); env.pop('GOWORK',None)
dirs=['.','filter','config/eval','function','internal/index','internal/grouper','internal/icolumn','internal/fcolumn','internal/bcolumn','internal/scolumn','internal/ecolumn','internal/strings','internal/io','internal/io/sql','internal/fastcsv','internal/sort','internal/math/float','internal/column','internal/ncolumn','internal/hash','qerrors','types']
items=[]
for d in dirs:
    names=set()
    for f in glob.glob('/repo/%s/*.go'%d):
        if f.endswith('_test.go'): continue
        for m in re.finditer(r'^func (?:\([^)]*\) )?([a-z]\w*)\(', open(f).read(), re.M):
            names.add(m.group(1))
    for n in sorted(names):
        if n in ('init','main'): continue
        items.append((d,n))
print(len(items),'renames')
jobs=10
pool=queue.Queue()
for k in range(jobs):
    wt='/tmp/rensweep/wt%d'%k
    subprocess.run(['git','-C','/repo','worktree','add','--detach',wt,'HEAD','-q'],check=True)
    pool.put(wt)
def run(it):
    d,n=it
    wt=pool.get()
    try:
        files=[f for f in glob.glob('%s/%s/*.go'%(wt,d)) if not f.endswith('_test.go')]
        subprocess.run(['gofmt','-r','%s -> %sZz'%(n,n),'-w']+files,env=env,stdout=subprocess.DEVNULL,stderr=subprocess.DEVNULL)
        if subprocess.run(['go','build','./...'],cwd=wt,env=env,stdout=subprocess.DEVNULL,stderr=subprocess.DEVNULL).returncode!=0:
            return d,n,'nobuild',[]
        p=subprocess.run(['/verif/bin/qfcheck','-repo',wt,'-verif','/verif','-rules','all','-no-evidence'],stdout=subprocess.PIPE,stderr=subprocess.STDOUT,env=env)
        keys=sorted({l.split()[1] for l in p.stdout.decode(errors='replace').splitlines() if (l.startswith('  VIOLATED') or l.startswith('  UNDECIDED')) and 'R129|zero' not in l})
        return d,n,('alarm' if keys else 'silent'),keys
    finally:
        subprocess.run(['git','-C',wt,'checkout','-q','--','.'])
        pool.put(wt)
res=[]
with cf.ThreadPoolExecutor(jobs) as ex:
    for r in ex.map(run,items):
        res.append(r)
        if r[2]=='alarm': print('ALARM',r[0],r[1],r[3][:4],flush=True)
import collections
print(collections.Counter(r[2] for r in res))
for k in range(jobs):
    subprocess.run(['git','-C','/repo','worktree','remove','--force','/tmp/rensweep/wt%d'%k])
